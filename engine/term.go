package main

// Hash-consed bit-vector / Bool term DAG with local simplification, a model
// evaluator and an SMT-LIB2 printer. Width 0 means Bool.

import (
	"fmt"
	"math/bits"
	"sort"
	"strings"
)

type Op uint8

const (
	OpConst Op = iota
	OpVar
	OpNot
	OpAnd
	OpOr
	OpEq
	OpIte
	OpBvNot
	OpBvNeg
	OpBvAnd
	OpBvOr
	OpBvXor
	OpBvAdd
	OpBvSub
	OpBvMul
	OpBvUdiv
	OpBvUrem
	OpBvSdiv
	OpBvSrem
	OpBvShl
	OpBvLshr
	OpBvAshr
	OpUlt
	OpUle
	OpSlt
	OpSle
	OpConcat
	OpExtract
	OpZext
	OpSext
	OpFP // IEEE-754 operation on bit patterns; the kind is in Hi (see fp.go)
)

var opNames = map[Op]string{
	OpNot: "not", OpAnd: "and", OpOr: "or", OpEq: "=", OpIte: "ite",
	OpBvNot: "bvnot", OpBvNeg: "bvneg", OpBvAnd: "bvand", OpBvOr: "bvor", OpBvXor: "bvxor",
	OpBvAdd: "bvadd", OpBvSub: "bvsub", OpBvMul: "bvmul", OpBvUdiv: "bvudiv", OpBvUrem: "bvurem",
	OpBvSdiv: "bvsdiv", OpBvSrem: "bvsrem", OpBvShl: "bvshl", OpBvLshr: "bvlshr", OpBvAshr: "bvashr",
	OpUlt: "bvult", OpUle: "bvule", OpSlt: "bvslt", OpSle: "bvsle", OpConcat: "concat",
}

type Term struct {
	Op   Op
	W    int // result width; 0 = Bool
	Args []*Term
	Val  uint64 // OpConst
	Name string // OpVar
	Hi   int    // OpExtract
	Lo   int
	ID   int
	kz   uint64 // bits known to be 0
	ko   uint64 // bits known to be 1
}

// TermTable hash-conses terms. Not safe for concurrent use: one per worker.
type TermTable struct {
	tab    map[string]*Term
	nextID int
	True   *Term
	False  *Term
	vars   map[string]*Term
}

func NewTermTable() *TermTable {
	tt := &TermTable{tab: map[string]*Term{}, vars: map[string]*Term{}}
	tt.True = tt.intern(&Term{Op: OpConst, W: 0, Val: 1})
	tt.False = tt.intern(&Term{Op: OpConst, W: 0, Val: 0})
	return tt
}

func (tt *TermTable) key(t *Term) string {
	var sb strings.Builder
	fmt.Fprintf(&sb, "%d:%d:", t.Op, t.W)
	switch t.Op {
	case OpConst:
		fmt.Fprintf(&sb, "%x", t.Val)
	case OpVar:
		sb.WriteString(t.Name)
	case OpExtract, OpFP:
		fmt.Fprintf(&sb, "%d,%d,", t.Hi, t.Lo)
	}
	for _, a := range t.Args {
		fmt.Fprintf(&sb, "#%d", a.ID)
	}
	return sb.String()
}

func (tt *TermTable) intern(t *Term) *Term {
	k := tt.key(t)
	if e, ok := tt.tab[k]; ok {
		return e
	}
	if t.W > 0 && t.Op != OpConst {
		knownBits(t)
		if t.kz|t.ko == mask(t.W) {
			// every bit is determined: the term is a constant
			c := tt.Const(t.W, t.ko)
			tt.tab[k] = c
			return c
		}
	} else if t.Op == OpConst && t.W > 0 {
		t.ko = t.Val
		t.kz = ^t.Val & mask(t.W)
	}
	tt.nextID++
	t.ID = tt.nextID
	tt.tab[k] = t
	return t
}

// knownBits fills t.kz / t.ko from the operands (cheap forward analysis).
func knownBits(t *Term) {
	m := mask(t.W)
	a := func(i int) (uint64, uint64) { return t.Args[i].kz, t.Args[i].ko }
	var kz, ko uint64
	switch t.Op {
	case OpBvAnd:
		z0, o0 := a(0)
		z1, o1 := a(1)
		kz, ko = z0|z1, o0&o1
	case OpBvOr:
		z0, o0 := a(0)
		z1, o1 := a(1)
		kz, ko = z0&z1, o0|o1
	case OpBvXor:
		z0, o0 := a(0)
		z1, o1 := a(1)
		kz = (z0 & z1) | (o0 & o1)
		ko = (z0 & o1) | (o0 & z1)
	case OpBvNot:
		z0, o0 := a(0)
		kz, ko = o0, z0
	case OpBvShl:
		if t.Args[1].IsConst() && t.Args[1].Val < uint64(t.W) {
			k := t.Args[1].Val
			z0, o0 := a(0)
			kz = (z0 << k) | ((uint64(1) << k) - 1)
			ko = o0 << k
		}
	case OpBvLshr:
		if t.Args[1].IsConst() && t.Args[1].Val < uint64(t.W) {
			k := t.Args[1].Val
			z0, o0 := a(0)
			kz = (z0 >> k) | (m &^ (m >> k))
			ko = o0 >> k
		}
	case OpZext:
		z0, o0 := a(0)
		kz = z0 | (m &^ mask(t.Args[0].W))
		ko = o0
	case OpExtract:
		z0, o0 := a(0)
		kz, ko = z0>>uint(t.Lo), o0>>uint(t.Lo)
	case OpConcat:
		z0, o0 := a(0)
		z1, o1 := a(1)
		lw := uint(t.Args[1].W)
		kz, ko = z0<<lw|z1, o0<<lw|o1
	case OpIte:
		z1, o1 := t.Args[1].kz, t.Args[1].ko
		z2, o2 := t.Args[2].kz, t.Args[2].ko
		kz, ko = z1&z2, o1&o2
	case OpBvAdd:
		z0, o0 := a(0)
		z1, o1 := a(1)
		carry := uint64(0)
		for i := 0; i < t.W; i++ {
			b := uint64(1) << uint(i)
			if (z0|o0)&b == 0 || (z1|o1)&b == 0 {
				break
			}
			x, y := (o0>>uint(i))&1, (o1>>uint(i))&1
			s := x + y + carry
			if s&1 == 1 {
				ko |= b
			} else {
				kz |= b
			}
			carry = s >> 1
		}
	case OpBvMul:
		// trailing zeros add up
		z0, _ := a(0)
		z1, _ := a(1)
		tz := bits.TrailingZeros64(^z0) + bits.TrailingZeros64(^z1)
		if tz >= 64 {
			tz = 64
		}
		if tz > 0 {
			kz = mask(tz)
		}
	case OpBvUrem:
		if t.Args[1].IsConst() && t.Args[1].Val > 0 {
			hb := 64 - bits.LeadingZeros64(t.Args[1].Val-1)
			kz = m &^ mask(hb)
			if hb == 0 {
				kz = m
			}
		}
	}
	t.kz, t.ko = kz&m, ko&m
}

func mask(w int) uint64 {
	if w >= 64 {
		return ^uint64(0)
	}
	return (uint64(1) << uint(w)) - 1
}

func signExt(v uint64, w int) int64 {
	if w >= 64 {
		return int64(v)
	}
	sh := uint(64 - w)
	return int64(v<<sh) >> sh
}

func (t *Term) IsConst() bool { return t.Op == OpConst }
func (t *Term) IsTrue() bool  { return t.Op == OpConst && t.W == 0 && t.Val == 1 }
func (t *Term) IsFalse() bool { return t.Op == OpConst && t.W == 0 && t.Val == 0 }

func (tt *TermTable) Const(w int, v uint64) *Term {
	if w == 0 {
		if v != 0 {
			return tt.True
		}
		return tt.False
	}
	return tt.intern(&Term{Op: OpConst, W: w, Val: v & mask(w)})
}

func (tt *TermTable) Bool(b bool) *Term {
	if b {
		return tt.True
	}
	return tt.False
}

func (tt *TermTable) Var(name string, w int) *Term {
	if v, ok := tt.vars[name]; ok {
		if v.W != w {
			panic(fmt.Sprintf("var %s redeclared with width %d (was %d)", name, w, v.W))
		}
		return v
	}
	v := tt.intern(&Term{Op: OpVar, W: w, Name: name})
	tt.vars[name] = v
	return v
}

func (tt *TermTable) mk(op Op, w int, args ...*Term) *Term {
	return tt.intern(&Term{Op: op, W: w, Args: args})
}

// ---------- Bool ----------

func (tt *TermTable) Not(a *Term) *Term {
	if a.W != 0 {
		panic("Not on non-bool")
	}
	if a.IsConst() {
		return tt.Bool(a.Val == 0)
	}
	if a.Op == OpNot {
		return a.Args[0]
	}
	return tt.mk(OpNot, 0, a)
}

func (tt *TermTable) And(xs ...*Term) *Term {
	var out []*Term
	seen := map[int]bool{}
	for _, x := range xs {
		if x.W != 0 {
			panic("And on non-bool")
		}
		if x.IsFalse() {
			return tt.False
		}
		if x.IsTrue() {
			continue
		}
		if x.Op == OpAnd {
			for _, y := range x.Args {
				if !seen[y.ID] {
					seen[y.ID] = true
					out = append(out, y)
				}
			}
			continue
		}
		if !seen[x.ID] {
			seen[x.ID] = true
			out = append(out, x)
		}
	}
	for _, x := range out {
		if x.Op == OpNot && seen[x.Args[0].ID] {
			return tt.False
		}
	}
	if len(out) == 0 {
		return tt.True
	}
	if len(out) == 1 {
		return out[0]
	}
	sort.Slice(out, func(i, j int) bool { return out[i].ID < out[j].ID })
	return tt.mk(OpAnd, 0, out...)
}

func (tt *TermTable) Or(xs ...*Term) *Term {
	var out []*Term
	seen := map[int]bool{}
	for _, x := range xs {
		if x.W != 0 {
			panic("Or on non-bool")
		}
		if x.IsTrue() {
			return tt.True
		}
		if x.IsFalse() {
			continue
		}
		if x.Op == OpOr {
			for _, y := range x.Args {
				if !seen[y.ID] {
					seen[y.ID] = true
					out = append(out, y)
				}
			}
			continue
		}
		if !seen[x.ID] {
			seen[x.ID] = true
			out = append(out, x)
		}
	}
	for _, x := range out {
		if x.Op == OpNot && seen[x.Args[0].ID] {
			return tt.True
		}
	}
	if len(out) == 0 {
		return tt.False
	}
	if len(out) == 1 {
		return out[0]
	}
	sort.Slice(out, func(i, j int) bool { return out[i].ID < out[j].ID })
	return tt.mk(OpOr, 0, out...)
}

func (tt *TermTable) Implies(a, b *Term) *Term { return tt.Or(tt.Not(a), b) }

func (tt *TermTable) Eq(a, b *Term) *Term {
	if a.W != b.W {
		panic(fmt.Sprintf("Eq width mismatch %d vs %d", a.W, b.W))
	}
	if a == b {
		return tt.True
	}
	if a.IsConst() && b.IsConst() {
		return tt.Bool(a.Val == b.Val)
	}
	if a.W == 0 {
		if a.IsConst() {
			a, b = b, a
		}
		if b.IsTrue() {
			return a
		}
		if b.IsFalse() {
			return tt.Not(a)
		}
	}
	if a.IsConst() {
		a, b = b, a
	}
	if b.IsConst() && a.W > 0 && (b.Val&a.kz != 0 || ^b.Val&a.ko != 0) {
		return tt.False
	}
	// eq(ite(c,k1,k2), k) with constant leaves folds to a Bool over c
	if b.IsConst() && a.Op == OpIte && a.W != 0 {
		if r := tt.eqIteConst(a, b, 0); r != nil {
			return r
		}
	}
	// eq(zext(x), k)
	if b.IsConst() && a.Op == OpZext {
		x := a.Args[0]
		if b.Val&^mask(x.W) != 0 {
			return tt.False
		}
		return tt.Eq(x, tt.Const(x.W, b.Val))
	}
	if a.ID > b.ID && !b.IsConst() {
		a, b = b, a
	}
	return tt.mk(OpEq, 0, a, b)
}

// eqIteConst distributes an equality with a constant over a (shallow) ite tree
// when at least one leaf is constant, which lets reads through symbolic
// indices of concrete data fold.
func (tt *TermTable) eqIteConst(a, k *Term, depth int) *Term {
	if depth > 6 {
		return nil
	}
	if a.Op != OpIte {
		return nil
	}
	t, e := a.Args[1], a.Args[2]
	if !t.IsConst() && !e.IsConst() {
		return nil
	}
	var te, ee *Term
	if t.IsConst() {
		te = tt.Bool(t.Val == k.Val)
	} else if r := tt.eqIteConst(t, k, depth+1); r != nil {
		te = r
	} else {
		te = tt.mk(OpEq, 0, t, k)
	}
	if e.IsConst() {
		ee = tt.Bool(e.Val == k.Val)
	} else if r := tt.eqIteConst(e, k, depth+1); r != nil {
		ee = r
	} else {
		ee = tt.mk(OpEq, 0, e, k)
	}
	return tt.Ite(a.Args[0], te, ee)
}

func (tt *TermTable) Ite(c, a, b *Term) *Term {
	if c.W != 0 {
		panic("Ite cond non-bool")
	}
	if a.W != b.W {
		panic(fmt.Sprintf("Ite width mismatch %d vs %d", a.W, b.W))
	}
	if c.IsTrue() {
		return a
	}
	if c.IsFalse() {
		return b
	}
	if a == b {
		return a
	}
	if a.W == 0 {
		if a.IsTrue() && b.IsFalse() {
			return c
		}
		if a.IsFalse() && b.IsTrue() {
			return tt.Not(c)
		}
		if a.IsTrue() {
			return tt.Or(c, b)
		}
		if a.IsFalse() {
			return tt.And(tt.Not(c), b)
		}
		if b.IsTrue() {
			return tt.Or(tt.Not(c), a)
		}
		if b.IsFalse() {
			return tt.And(c, a)
		}
	}
	if c.Op == OpNot {
		return tt.Ite(c.Args[0], b, a)
	}
	// ite(c, x, ite(c, y, z)) = ite(c, x, z)
	if b.Op == OpIte && b.Args[0] == c {
		return tt.Ite(c, a, b.Args[2])
	}
	if a.Op == OpIte && a.Args[0] == c {
		return tt.Ite(c, a.Args[1], b)
	}
	return tt.mk(OpIte, a.W, c, a, b)
}

// ---------- BV ----------

func (tt *TermTable) chk2(a, b *Term, what string) {
	if a.W != b.W || a.W == 0 {
		panic(fmt.Sprintf("%s width mismatch %d vs %d", what, a.W, b.W))
	}
}

func (tt *TermTable) BvNot(a *Term) *Term {
	if a.IsConst() {
		return tt.Const(a.W, ^a.Val)
	}
	if a.Op == OpBvNot {
		return a.Args[0]
	}
	return tt.mk(OpBvNot, a.W, a)
}

func (tt *TermTable) BvNeg(a *Term) *Term {
	if a.IsConst() {
		return tt.Const(a.W, -a.Val)
	}
	return tt.mk(OpBvNeg, a.W, a)
}

func (tt *TermTable) BvAnd(a, b *Term) *Term {
	tt.chk2(a, b, "bvand")
	if a.IsConst() && b.IsConst() {
		return tt.Const(a.W, a.Val&b.Val)
	}
	if a.IsConst() {
		a, b = b, a
	}
	if b.IsConst() {
		if b.Val == 0 {
			return b
		}
		if b.Val == mask(a.W) {
			return a
		}
		// (zext x) & k where k covers all of x's bits
		if a.Op == OpZext && b.Val&mask(a.Args[0].W) == mask(a.Args[0].W) {
			return a
		}
		if a.Op == OpBvAnd && a.Args[1].IsConst() {
			return tt.BvAnd(a.Args[0], tt.Const(a.W, a.Args[1].Val&b.Val))
		}
	}
	if a == b {
		return a
	}
	if !b.IsConst() && a.ID > b.ID {
		a, b = b, a
	}
	return tt.mk(OpBvAnd, a.W, a, b)
}

func (tt *TermTable) BvOr(a, b *Term) *Term {
	tt.chk2(a, b, "bvor")
	if a.IsConst() && b.IsConst() {
		return tt.Const(a.W, a.Val|b.Val)
	}
	if a.IsConst() {
		a, b = b, a
	}
	if b.IsConst() {
		if b.Val == 0 {
			return a
		}
		if b.Val == mask(a.W) {
			return b
		}
	}
	if a == b {
		return a
	}
	if !b.IsConst() && a.ID > b.ID {
		a, b = b, a
	}
	return tt.mk(OpBvOr, a.W, a, b)
}

func (tt *TermTable) BvXor(a, b *Term) *Term {
	tt.chk2(a, b, "bvxor")
	if a.IsConst() && b.IsConst() {
		return tt.Const(a.W, a.Val^b.Val)
	}
	if a.IsConst() {
		a, b = b, a
	}
	if b.IsConst() && b.Val == 0 {
		return a
	}
	if a == b {
		return tt.Const(a.W, 0)
	}
	if !b.IsConst() && a.ID > b.ID {
		a, b = b, a
	}
	return tt.mk(OpBvXor, a.W, a, b)
}

func (tt *TermTable) BvAdd(a, b *Term) *Term {
	tt.chk2(a, b, "bvadd")
	if a.IsConst() && b.IsConst() {
		return tt.Const(a.W, a.Val+b.Val)
	}
	if a.IsConst() {
		a, b = b, a
	}
	if b.IsConst() {
		if b.Val == 0 {
			return a
		}
		// (x + k1) + k2
		if a.Op == OpBvAdd && a.Args[1].IsConst() {
			return tt.BvAdd(a.Args[0], tt.Const(a.W, a.Args[1].Val+b.Val))
		}
		if a.Op == OpBvSub && a.Args[1].IsConst() {
			return tt.BvAdd(a.Args[0], tt.Const(a.W, b.Val-a.Args[1].Val))
		}
	}
	if !b.IsConst() && a.ID > b.ID {
		a, b = b, a
	}
	return tt.mk(OpBvAdd, a.W, a, b)
}

func (tt *TermTable) BvSub(a, b *Term) *Term {
	tt.chk2(a, b, "bvsub")
	if a.IsConst() && b.IsConst() {
		return tt.Const(a.W, a.Val-b.Val)
	}
	if b.IsConst() {
		return tt.BvAdd(a, tt.Const(a.W, -b.Val))
	}
	if a == b {
		return tt.Const(a.W, 0)
	}
	// (x + k) - x = k ; (y + x) - x = y
	if a.Op == OpBvAdd {
		if a.Args[0] == b {
			return a.Args[1]
		}
		if a.Args[1] == b {
			return a.Args[0]
		}
	}
	return tt.mk(OpBvSub, a.W, a, b)
}

func (tt *TermTable) BvMul(a, b *Term) *Term {
	tt.chk2(a, b, "bvmul")
	if a.IsConst() && b.IsConst() {
		return tt.Const(a.W, a.Val*b.Val)
	}
	if a.IsConst() {
		a, b = b, a
	}
	if b.IsConst() {
		if b.Val == 0 {
			return b
		}
		if b.Val == 1 {
			return a
		}
		if bits.OnesCount64(b.Val) == 1 {
			return tt.BvShl(a, tt.Const(a.W, uint64(bits.TrailingZeros64(b.Val))))
		}
	}
	if !b.IsConst() && a.ID > b.ID {
		a, b = b, a
	}
	return tt.mk(OpBvMul, a.W, a, b)
}

func (tt *TermTable) BvUdiv(a, b *Term) *Term {
	tt.chk2(a, b, "bvudiv")
	if a.IsConst() && b.IsConst() {
		if b.Val == 0 {
			return tt.Const(a.W, mask(a.W))
		}
		return tt.Const(a.W, a.Val/b.Val)
	}
	if b.IsConst() && b.Val == 1 {
		return a
	}
	if b.IsConst() && b.Val != 0 && bits.OnesCount64(b.Val) == 1 {
		return tt.BvLshr(a, tt.Const(a.W, uint64(bits.TrailingZeros64(b.Val))))
	}
	return tt.mk(OpBvUdiv, a.W, a, b)
}

func (tt *TermTable) BvUrem(a, b *Term) *Term {
	tt.chk2(a, b, "bvurem")
	if a.IsConst() && b.IsConst() {
		if b.Val == 0 {
			return a
		}
		return tt.Const(a.W, a.Val%b.Val)
	}
	if b.IsConst() && b.Val != 0 && bits.OnesCount64(b.Val) == 1 {
		return tt.BvAnd(a, tt.Const(a.W, b.Val-1))
	}
	return tt.mk(OpBvUrem, a.W, a, b)
}

func (tt *TermTable) BvSdiv(a, b *Term) *Term {
	tt.chk2(a, b, "bvsdiv")
	if a.IsConst() && b.IsConst() {
		x, y := signExt(a.Val, a.W), signExt(b.Val, b.W)
		if y == 0 {
			if x < 0 {
				return tt.Const(a.W, 1)
			}
			return tt.Const(a.W, mask(a.W))
		}
		if y == -1 {
			return tt.Const(a.W, uint64(-x))
		}
		return tt.Const(a.W, uint64(x/y))
	}
	if b.IsConst() && b.Val == 1 {
		return a
	}
	return tt.mk(OpBvSdiv, a.W, a, b)
}

func (tt *TermTable) BvSrem(a, b *Term) *Term {
	tt.chk2(a, b, "bvsrem")
	if a.IsConst() && b.IsConst() {
		x, y := signExt(a.Val, a.W), signExt(b.Val, b.W)
		if y == 0 {
			return a
		}
		if y == -1 {
			return tt.Const(a.W, 0)
		}
		return tt.Const(a.W, uint64(x%y))
	}
	return tt.mk(OpBvSrem, a.W, a, b)
}

func (tt *TermTable) BvShl(a, b *Term) *Term {
	tt.chk2(a, b, "bvshl")
	if b.IsConst() {
		if b.Val == 0 {
			return a
		}
		if b.Val >= uint64(a.W) {
			return tt.Const(a.W, 0)
		}
		if a.IsConst() {
			return tt.Const(a.W, a.Val<<b.Val)
		}
	}
	return tt.mk(OpBvShl, a.W, a, b)
}

func (tt *TermTable) BvLshr(a, b *Term) *Term {
	tt.chk2(a, b, "bvlshr")
	if b.IsConst() {
		if b.Val == 0 {
			return a
		}
		if b.Val >= uint64(a.W) {
			return tt.Const(a.W, 0)
		}
		if a.IsConst() {
			return tt.Const(a.W, a.Val>>b.Val)
		}
		// lshr(zext(x), k) with k >= width(x) is 0
		if a.Op == OpZext && b.Val >= uint64(a.Args[0].W) {
			return tt.Const(a.W, 0)
		}
	}
	return tt.mk(OpBvLshr, a.W, a, b)
}

func (tt *TermTable) BvAshr(a, b *Term) *Term {
	tt.chk2(a, b, "bvashr")
	if b.IsConst() {
		if b.Val == 0 {
			return a
		}
		if a.IsConst() {
			sh := b.Val
			if sh >= uint64(a.W) {
				sh = uint64(a.W - 1)
			}
			return tt.Const(a.W, uint64(signExt(a.Val, a.W)>>sh))
		}
	}
	return tt.mk(OpBvAshr, a.W, a, b)
}

// unsigned upper bound of a term when cheaply known (else mask)
func (tt *TermTable) ubound(a *Term, depth int) uint64 {
	if a.IsConst() {
		return a.Val
	}
	if depth > 8 {
		return mask(a.W)
	}
	switch a.Op {
	case OpZext:
		return tt.ubound(a.Args[0], depth+1)
	case OpBvAnd:
		x, y := tt.ubound(a.Args[0], depth+1), tt.ubound(a.Args[1], depth+1)
		if x < y {
			return x
		}
		return y
	case OpBvLshr:
		if a.Args[1].IsConst() {
			return tt.ubound(a.Args[0], depth+1) >> a.Args[1].Val
		}
	case OpIte:
		x, y := tt.ubound(a.Args[1], depth+1), tt.ubound(a.Args[2], depth+1)
		if x > y {
			return x
		}
		return y
	case OpBvAdd:
		x, y := tt.ubound(a.Args[0], depth+1), tt.ubound(a.Args[1], depth+1)
		s := x + y
		if s < x || s > mask(a.W) {
			return mask(a.W)
		}
		return s
	case OpBvUrem:
		if a.Args[1].IsConst() && a.Args[1].Val > 0 {
			return a.Args[1].Val - 1
		}
	}
	return mask(a.W) &^ a.kz
}

func (tt *TermTable) Ult(a, b *Term) *Term {
	tt.chk2(a, b, "bvult")
	if a.IsConst() && b.IsConst() {
		return tt.Bool(a.Val < b.Val)
	}
	if a == b {
		return tt.False
	}
	if b.IsConst() && b.Val == 0 {
		return tt.False
	}
	if b.IsConst() && tt.ubound(a, 0) < b.Val {
		return tt.True
	}
	if a.IsConst() && a.Val == mask(a.W) {
		return tt.False
	}
	if a.IsConst() && tt.ubound(b, 0) <= a.Val {
		return tt.False
	}
	return tt.mk(OpUlt, 0, a, b)
}

func (tt *TermTable) Ule(a, b *Term) *Term {
	tt.chk2(a, b, "bvule")
	if a.IsConst() && b.IsConst() {
		return tt.Bool(a.Val <= b.Val)
	}
	if a == b {
		return tt.True
	}
	if a.IsConst() && a.Val == 0 {
		return tt.True
	}
	if b.IsConst() && tt.ubound(a, 0) <= b.Val {
		return tt.True
	}
	if a.IsConst() && tt.ubound(b, 0) < a.Val {
		return tt.False
	}
	return tt.mk(OpUle, 0, a, b)
}

// nonNegSmall reports whether a is known to be < 2^(W-1) as unsigned.
func (tt *TermTable) nonNeg(a *Term) bool {
	return tt.ubound(a, 0) < uint64(1)<<uint(a.W-1)
}

func (tt *TermTable) Slt(a, b *Term) *Term {
	tt.chk2(a, b, "bvslt")
	if a.IsConst() && b.IsConst() {
		return tt.Bool(signExt(a.Val, a.W) < signExt(b.Val, b.W))
	}
	if a == b {
		return tt.False
	}
	if tt.nonNeg(a) && tt.nonNeg(b) {
		return tt.Ult(a, b)
	}
	return tt.mk(OpSlt, 0, a, b)
}

func (tt *TermTable) Sle(a, b *Term) *Term {
	tt.chk2(a, b, "bvsle")
	if a.IsConst() && b.IsConst() {
		return tt.Bool(signExt(a.Val, a.W) <= signExt(b.Val, b.W))
	}
	if a == b {
		return tt.True
	}
	if tt.nonNeg(a) && tt.nonNeg(b) {
		return tt.Ule(a, b)
	}
	return tt.mk(OpSle, 0, a, b)
}

func (tt *TermTable) Concat(hi, lo *Term) *Term {
	if hi.IsConst() && lo.IsConst() {
		return tt.Const(hi.W+lo.W, hi.Val<<uint(lo.W)|lo.Val)
	}
	return tt.mk(OpConcat, hi.W+lo.W, hi, lo)
}

func (tt *TermTable) Extract(a *Term, hi, lo int) *Term {
	if hi >= a.W || lo < 0 || hi < lo {
		panic(fmt.Sprintf("bad extract [%d:%d] of width %d", hi, lo, a.W))
	}
	w := hi - lo + 1
	if w == a.W {
		return a
	}
	if a.IsConst() {
		return tt.Const(w, a.Val>>uint(lo))
	}
	switch a.Op {
	case OpZext:
		x := a.Args[0]
		if hi < x.W {
			return tt.Extract(x, hi, lo)
		}
		if lo >= x.W {
			return tt.Const(w, 0)
		}
		if lo == 0 {
			return tt.Zext(x, w)
		}
	case OpSext:
		x := a.Args[0]
		if hi < x.W {
			return tt.Extract(x, hi, lo)
		}
	case OpExtract:
		return tt.Extract(a.Args[0], a.Lo+hi, a.Lo+lo)
	case OpConcat:
		l := a.Args[1]
		if hi < l.W {
			return tt.Extract(l, hi, lo)
		}
		if lo >= l.W {
			return tt.Extract(a.Args[0], hi-l.W, lo-l.W)
		}
	case OpBvAnd, OpBvOr, OpBvXor:
		if lo == 0 || a.Args[1].IsConst() {
			x := tt.Extract(a.Args[0], hi, lo)
			y := tt.Extract(a.Args[1], hi, lo)
			switch a.Op {
			case OpBvAnd:
				return tt.BvAnd(x, y)
			case OpBvOr:
				return tt.BvOr(x, y)
			default:
				return tt.BvXor(x, y)
			}
		}
	case OpIte:
		if a.Args[1].IsConst() || a.Args[2].IsConst() {
			return tt.Ite(a.Args[0], tt.Extract(a.Args[1], hi, lo), tt.Extract(a.Args[2], hi, lo))
		}
	case OpBvLshr:
		// extract of (zext(x) >> k): bits of x
		if a.Args[1].IsConst() {
			k := int(a.Args[1].Val)
			if hi+k < a.W {
				return tt.Extract(a.Args[0], hi+k, lo+k)
			}
		}
	}
	return tt.intern(&Term{Op: OpExtract, W: w, Args: []*Term{a}, Hi: hi, Lo: lo})
}

func (tt *TermTable) Zext(a *Term, w int) *Term {
	if w == a.W {
		return a
	}
	if w < a.W {
		return tt.Extract(a, w-1, 0)
	}
	if a.IsConst() {
		return tt.Const(w, a.Val)
	}
	if a.Op == OpZext {
		return tt.Zext(a.Args[0], w)
	}
	if a.Op == OpIte && (a.Args[1].IsConst() || a.Args[2].IsConst()) {
		return tt.Ite(a.Args[0], tt.Zext(a.Args[1], w), tt.Zext(a.Args[2], w))
	}
	return tt.mk(OpZext, w, a)
}

func (tt *TermTable) Sext(a *Term, w int) *Term {
	if w == a.W {
		return a
	}
	if w < a.W {
		return tt.Extract(a, w-1, 0)
	}
	if a.IsConst() {
		return tt.Const(w, uint64(signExt(a.Val, a.W)))
	}
	if tt.nonNeg(a) {
		return tt.Zext(a, w)
	}
	return tt.mk(OpSext, w, a)
}

// ---------- evaluation under a model ----------

type Model map[string]uint64

func (m Model) Eval(t *Term, memo map[int]uint64) uint64 {
	if t.Op == OpConst {
		return t.Val
	}
	if v, ok := memo[t.ID]; ok {
		return v
	}
	var r uint64
	a := func(i int) uint64 { return m.Eval(t.Args[i], memo) }
	switch t.Op {
	case OpVar:
		r = m[t.Name] & maskB(t.W)
	case OpNot:
		r = 1 - a(0)
	case OpAnd:
		r = 1
		for i := range t.Args {
			if a(i) == 0 {
				r = 0
				break
			}
		}
	case OpOr:
		r = 0
		for i := range t.Args {
			if a(i) != 0 {
				r = 1
				break
			}
		}
	case OpEq:
		if a(0) == a(1) {
			r = 1
		}
	case OpIte:
		if a(0) != 0 {
			r = a(1)
		} else {
			r = a(2)
		}
	case OpBvNot:
		r = ^a(0)
	case OpBvNeg:
		r = -a(0)
	case OpBvAnd:
		r = a(0) & a(1)
	case OpBvOr:
		r = a(0) | a(1)
	case OpBvXor:
		r = a(0) ^ a(1)
	case OpBvAdd:
		r = a(0) + a(1)
	case OpBvSub:
		r = a(0) - a(1)
	case OpBvMul:
		r = a(0) * a(1)
	case OpBvUdiv:
		if a(1) == 0 {
			r = mask(t.W)
		} else {
			r = a(0) / a(1)
		}
	case OpBvUrem:
		if a(1) == 0 {
			r = a(0)
		} else {
			r = a(0) % a(1)
		}
	case OpBvSdiv:
		x, y := signExt(a(0), t.W), signExt(a(1), t.W)
		switch {
		case y == 0 && x < 0:
			r = 1
		case y == 0:
			r = mask(t.W)
		case y == -1:
			r = uint64(-x)
		default:
			r = uint64(x / y)
		}
	case OpBvSrem:
		x, y := signExt(a(0), t.W), signExt(a(1), t.W)
		switch {
		case y == 0:
			r = uint64(x)
		case y == -1:
			r = 0
		default:
			r = uint64(x % y)
		}
	case OpBvShl:
		if a(1) >= uint64(t.W) {
			r = 0
		} else {
			r = a(0) << a(1)
		}
	case OpBvLshr:
		if a(1) >= uint64(t.W) {
			r = 0
		} else {
			r = a(0) >> a(1)
		}
	case OpBvAshr:
		sh := a(1)
		if sh >= uint64(t.W) {
			sh = uint64(t.W - 1)
		}
		r = uint64(signExt(a(0), t.W) >> sh)
	case OpUlt:
		if a(0) < a(1) {
			r = 1
		}
	case OpUle:
		if a(0) <= a(1) {
			r = 1
		}
	case OpSlt:
		w := t.Args[0].W
		if signExt(a(0), w) < signExt(a(1), w) {
			r = 1
		}
	case OpSle:
		w := t.Args[0].W
		if signExt(a(0), w) <= signExt(a(1), w) {
			r = 1
		}
	case OpConcat:
		r = a(0)<<uint(t.Args[1].W) | a(1)
	case OpExtract:
		r = a(0) >> uint(t.Lo)
	case OpZext:
		r = a(0)
	case OpSext:
		r = uint64(signExt(a(0), t.Args[0].W))
	case OpFP:
		vals := make([]uint64, len(t.Args))
		for i := range t.Args {
			vals[i] = a(i)
		}
		r = evalFP(t.Hi, t.W, t.Args[0].W, vals)
	default:
		panic("eval: unknown op")
	}
	r &= maskB(t.W)
	memo[t.ID] = r
	return r
}

func maskB(w int) uint64 {
	if w == 0 {
		return 1
	}
	return mask(w)
}

// ---------- SMT-LIB printing ----------

func sortName(w int) string {
	if w == 0 {
		return "Bool"
	}
	return fmt.Sprintf("(_ BitVec %d)", w)
}

func constLit(t *Term) string {
	if t.W == 0 {
		if t.Val != 0 {
			return "true"
		}
		return "false"
	}
	if t.W%4 == 0 {
		return fmt.Sprintf("#x%0*x", t.W/4, t.Val)
	}
	return fmt.Sprintf("#b%0*b", t.W, t.Val)
}

func varSym(name string) string { return "|" + name + "|" }

// SMTPrinter serialises a set of root terms as declarations, one define-fun
// per interior DAG node, then the caller's assertions over the node names.
type SMTPrinter struct {
	sb    strings.Builder
	done  map[int]string
	Vars  []*Term
	varOK map[string]bool
}

func NewSMTPrinter() *SMTPrinter {
	return &SMTPrinter{done: map[int]string{}, varOK: map[string]bool{}}
}

func (p *SMTPrinter) Ref(t *Term) string {
	if s, ok := p.done[t.ID]; ok {
		return s
	}
	// iterative post-order to avoid deep recursion on long ite chains
	type fr struct {
		t *Term
		i int
	}
	stack := []fr{{t, 0}}
	for len(stack) > 0 {
		f := &stack[len(stack)-1]
		if _, ok := p.done[f.t.ID]; ok {
			stack = stack[:len(stack)-1]
			continue
		}
		if f.i < len(f.t.Args) {
			c := f.t.Args[f.i]
			f.i++
			if _, ok := p.done[c.ID]; !ok {
				stack = append(stack, fr{c, 0})
			}
			continue
		}
		p.emit(f.t)
		stack = stack[:len(stack)-1]
	}
	return p.done[t.ID]
}

func (p *SMTPrinter) emit(t *Term) {
	switch t.Op {
	case OpConst:
		p.done[t.ID] = constLit(t)
		return
	case OpVar:
		if !p.varOK[t.Name] {
			p.varOK[t.Name] = true
			p.Vars = append(p.Vars, t)
			fmt.Fprintf(&p.sb, "(declare-const %s %s)\n", varSym(t.Name), sortName(t.W))
		}
		p.done[t.ID] = varSym(t.Name)
		return
	}
	args := make([]string, len(t.Args))
	for i, a := range t.Args {
		args[i] = p.done[a.ID]
	}
	var e string
	switch t.Op {
	case OpExtract:
		e = fmt.Sprintf("((_ extract %d %d) %s)", t.Hi, t.Lo, args[0])
	case OpZext:
		e = fmt.Sprintf("((_ zero_extend %d) %s)", t.W-t.Args[0].W, args[0])
	case OpSext:
		e = fmt.Sprintf("((_ sign_extend %d) %s)", t.W-t.Args[0].W, args[0])
	case OpFP:
		e = smtFP(t, args)
	default:
		e = "(" + opNames[t.Op] + " " + strings.Join(args, " ") + ")"
	}
	name := fmt.Sprintf("n%d", t.ID)
	fmt.Fprintf(&p.sb, "(define-fun %s () %s %s)\n", name, sortName(t.W), e)
	p.done[t.ID] = name
}

func (p *SMTPrinter) Assert(t *Term) {
	r := p.Ref(t)
	fmt.Fprintf(&p.sb, "(assert %s)\n", r)
}

func (p *SMTPrinter) String() string { return p.sb.String() }

// TermString renders a term for humans (evidence, debugging); bounded depth.
func TermString(t *Term, depth int) string {
	switch t.Op {
	case OpConst:
		if t.W == 0 {
			return constLit(t)
		}
		return fmt.Sprintf("%d", t.Val)
	case OpVar:
		return t.Name
	}
	if depth <= 0 {
		return "…"
	}
	var as []string
	for _, a := range t.Args {
		as = append(as, TermString(a, depth-1))
	}
	if t.Op == OpExtract {
		return fmt.Sprintf("%s[%d:%d]", as[0], t.Hi, t.Lo)
	}
	if t.Op == OpZext || t.Op == OpSext {
		return fmt.Sprintf("ext%d(%s)", t.W, as[0])
	}
	if t.Op == OpFP {
		return "(" + fpNames[t.Hi] + " " + strings.Join(as, " ") + ")"
	}
	return "(" + opNames[t.Op] + " " + strings.Join(as, " ") + ")"
}
