package main

// Schedules as solver variables (used by C07). Thread bodies are executed one
// after the other in isolation: every load of a pre-existing (shared) scalar
// cell returns a fresh variable and is logged as a read event, stores and
// Lock/Unlock calls are logged as events. At verifJoin the partial-order
// encoding is added to the path condition: an integer clock per event,
// program order, read-from (each read equals the latest earlier write to its
// cell, or the initial value) and mutual exclusion of critical sections. The
// interleaving is then chosen by the solver, not enumerated. Data-race freedom
// (which justifies the sequentially consistent model) is checked by locksets.

import (
	"fmt"
	"sort"
)

type evKind int

const (
	evRead evKind = iota
	evWrite
	evLock
	evUnlock
	evTryFail // a TryLock that found the mutex held
)

type cellKey struct {
	obj  *Object
	cell int
}

type event struct {
	id     int
	thread int
	op     int
	kind   evKind
	key    cellKey
	val    *Term // value written / variable read
	clock  *Term
	held   map[cellKey]bool // mutexes held at the event
}

type threadRec struct {
	ops []*FuncVal
}

type threadCtx struct {
	sharedMax int // objects with ID <= sharedMax existed before the first thread
	threads   []*threadRec
	cur       int // index of the running thread, -1 otherwise
	curOp     int
	events    []*event
	held      map[cellKey]bool
	clockW    int
}

func (ex *Exec) threadIntrinsic(name string, args []Value) Value {
	switch name {
	case "verifThread":
		if ex.threads == nil {
			ex.threads = &threadCtx{sharedMax: ex.nextObj, cur: -1, clockW: 8}
		}
		sl, ok := args[0].(*SliceVal)
		if !ok {
			ex.unsupported("verifThread expects func values")
		}
		n := ex.concLen(sl.Len, "thread op count")
		tr := &threadRec{}
		if n > 0 {
			for _, e := range ex.sliceReadElems(sl, n) {
				fv, ok := e[0].(*FuncVal)
				if !ok || fv.Fn == nil {
					ex.unsupported("verifThread operand is not a func")
				}
				tr.ops = append(tr.ops, fv)
			}
		}
		ex.threads.threads = append(ex.threads.threads, tr)
		return nil
	case "verifJoin":
		ex.joinThreads()
		return nil
	}
	ex.unsupported("thread intrinsic %s", name)
	return nil
}

func (tc *threadCtx) newEvent(ex *Exec, kind evKind, key cellKey, val *Term) *event {
	e := &event{id: len(tc.events), thread: tc.cur, op: tc.curOp, kind: kind, key: key, val: val}
	e.clock = ex.tt.Var(fmt.Sprintf("clk!%d", e.id), tc.clockW)
	e.held = map[cellKey]bool{}
	for k := range tc.held {
		e.held[k] = true
	}
	tc.events = append(tc.events, e)
	return e
}

// sharedAccess reports whether an access to o in the current mode is a
// shared-memory event.
func (ex *Exec) sharedAccess(o *Object) bool {
	tc := ex.threads
	return tc != nil && tc.cur >= 0 && o.ID <= tc.sharedMax
}

func (tc *threadCtx) readEvent(ex *Exec, o *Object, off *Term) Value {
	if !off.IsConst() {
		ex.unsupported("shared access at a symbolic address in thread mode")
	}
	cur := o.Cells[off.Val]
	t, ok := cur.(*Term)
	if !ok {
		return cur // pointers, slices…: not modelled as racing data
	}
	v := ex.tt.Var(fmt.Sprintf("rd!%d.w%d", len(tc.events), t.W), t.W)
	tc.newEvent(ex, evRead, cellKey{o, int(off.Val)}, v)
	return v
}

func (tc *threadCtx) writeEvent(ex *Exec, o *Object, off *Term, v Value) bool {
	if !off.IsConst() {
		ex.unsupported("shared access at a symbolic address in thread mode")
	}
	t, ok := v.(*Term)
	if !ok {
		return false
	}
	tc.newEvent(ex, evWrite, cellKey{o, int(off.Val)}, t)
	return true
}

func (tc *threadCtx) lockEvent(ex *Exec, p *PtrVal, lock bool) {
	if !p.Off.IsConst() {
		ex.unsupported("mutex at a symbolic address")
	}
	key := cellKey{p.Obj, int(p.Off.Val)}
	if tc.cur < 0 {
		return // main thread outside thread mode: no contention
	}
	if lock {
		if tc.held[key] {
			ex.check(ex.tt.False, "deadlock: Lock of a mutex the same thread holds")
		}
		tc.newEvent(ex, evLock, key, nil)
		tc.held[key] = true
	} else {
		if !tc.held[key] {
			ex.check(ex.tt.False, "Unlock of a mutex the thread does not hold")
		}
		delete(tc.held, key)
		tc.newEvent(ex, evUnlock, key, nil)
	}
}

// tryLockEvent models (*sync.Mutex).TryLock in thread mode: both outcomes are
// explored; success is an ordinary acquisition, failure is an event that the
// schedule must place inside another thread's critical section.
func (tc *threadCtx) tryLockEvent(ex *Exec, p *PtrVal) *Term {
	if !p.Off.IsConst() {
		ex.unsupported("mutex at a symbolic address")
	}
	key := cellKey{p.Obj, int(p.Off.Val)}
	if tc.cur < 0 {
		return ex.tt.True
	}
	if tc.held[key] {
		return ex.tt.False // the thread itself holds it
	}
	ok := ex.tt.Var(fmt.Sprintf("trylock!%d", len(tc.events)), 0)
	if ex.branch(ok) {
		tc.newEvent(ex, evLock, key, nil)
		tc.held[key] = true
		return ex.tt.True
	}
	tc.newEvent(ex, evTryFail, key, nil)
	return ex.tt.False
}

func (ex *Exec) joinThreads() {
	tc := ex.threads
	if tc == nil {
		return
	}
	tt := ex.tt
	// the native runtime needs the schedule before it runs the operations: reserve its
	// place on the tape ahead of anything the thread bodies draw
	schedIdx := len(ex.tape)
	ex.tape = append(ex.tape, TapeEntry{Name: "schedule", Kind: "sched"})
	// 1. run every thread in isolation
	for ti, tr := range tc.threads {
		tc.cur = ti
		tc.held = map[cellKey]bool{}
		for oi, op := range tr.ops {
			tc.curOp = oi
			ex.callFunc(op.Fn, nil, op.Bindings)
		}
		if len(tc.held) != 0 {
			ex.check(tt.False, "thread ends holding a mutex")
		}
	}
	tc.cur = -1
	if len(tc.events) > 200 {
		ex.unsupported("more than 200 shared-memory events: the 8-bit event clocks would not suffice")
	}
	W := tc.clockW
	zero := tt.Const(W, 0)
	var phi []*Term
	// 2. clocks are positive; program order
	last := map[int]*event{}
	for _, e := range tc.events {
		phi = append(phi, tt.Ult(zero, e.clock), tt.Ult(e.clock, tt.Const(W, mask(W))))
		if p := last[e.thread]; p != nil {
			phi = append(phi, tt.Ult(p.clock, e.clock))
		}
		last[e.thread] = e
	}
	// 3. read-from
	writes := map[cellKey][]*event{}
	for _, e := range tc.events {
		if e.kind == evWrite {
			writes[e.key] = append(writes[e.key], e)
		}
	}
	type wcand struct {
		clock *Term
		val   *Term
	}
	rf := func(key cellKey, rclock *Term, rval *Term) *Term {
		init, _ := key.obj.Cells[key.cell].(*Term)
		cands := []wcand{{zero, init}}
		for _, w := range writes[key] {
			cands = append(cands, wcand{w.clock, w.val})
		}
		var alts []*Term
		for i, w := range cands {
			c := []*Term{tt.Ult(w.clock, rclock), tt.Eq(rval, w.val)}
			for j, w2 := range cands {
				if i == j {
					continue
				}
				c = append(c, tt.Not(tt.And(tt.Ult(w.clock, w2.clock), tt.Ult(w2.clock, rclock))))
			}
			alts = append(alts, tt.And(c...))
		}
		return tt.Or(alts...)
	}
	for _, e := range tc.events {
		if e.kind == evRead {
			phi = append(phi, rf(e.key, e.clock, e.val))
		}
	}
	// 4. mutual exclusion of critical sections of the same mutex in different threads
	type cs struct {
		thread int
		l, u   *event
	}
	var sections []cs
	open := map[[2]interface{}]*event{}
	for _, e := range tc.events {
		k := [2]interface{}{e.thread, e.key}
		switch e.kind {
		case evLock:
			open[k] = e
		case evUnlock:
			if l := open[k]; l != nil {
				sections = append(sections, cs{e.thread, l, e})
				delete(open, k)
			}
		}
	}
	for i := range sections {
		for j := i + 1; j < len(sections); j++ {
			a, b := sections[i], sections[j]
			if a.thread == b.thread || a.l.key != b.l.key {
				continue
			}
			phi = append(phi, tt.Or(tt.Ult(a.u.clock, b.l.clock), tt.Ult(b.u.clock, a.l.clock)))
		}
	}
	// a failed TryLock happens strictly inside another thread's critical section of that mutex
	for _, e := range tc.events {
		if e.kind != evTryFail {
			continue
		}
		var inside []*Term
		for _, sct := range sections {
			if sct.thread != e.thread && sct.l.key == e.key {
				inside = append(inside, tt.And(tt.Ult(sct.l.clock, e.clock), tt.Ult(e.clock, sct.u.clock)))
			}
		}
		phi = append(phi, tt.Or(inside...))
	}
	// two writes / a write and a read of one cell never share a clock
	for _, ws := range writes {
		for i := range ws {
			for j := i + 1; j < len(ws); j++ {
				phi = append(phi, tt.Not(tt.Eq(ws[i].clock, ws[j].clock)))
			}
		}
	}
	// 6. the schedule goes on the tape: one clock per operation (its first event)
	sched := TapeEntry{Name: "schedule", Kind: "sched"}
	for ti, tr := range tc.threads {
		for oi := range tr.ops {
			// an operation is placed at its first real mutex acquisition if it has one
			// (exact when the operation is one critical section), else at its first event
			var first *Term
			for _, e := range tc.events {
				if e.thread == ti && e.op == oi && e.kind == evLock && e.key.cell >= 0 {
					first = e.clock
					break
				}
			}
			for _, e := range tc.events {
				if first == nil && e.thread == ti && e.op == oi {
					first = e.clock
				}
			}
			if first == nil {
				first = zero
			}
			sched.Terms = append(sched.Terms, tt.Const(W, uint64(ti)), first)
		}
	}
	ex.tape[schedIdx] = sched
	// 5. data-race freedom by locksets
	for i, a := range tc.events {
		if a.kind != evRead && a.kind != evWrite {
			continue
		}
		for _, b := range tc.events[i+1:] {
			if (b.kind != evRead && b.kind != evWrite) || a.thread == b.thread || a.key != b.key {
				continue
			}
			if a.kind == evRead && b.kind == evRead {
				continue
			}
			common := false
			for k := range a.held {
				if b.held[k] {
					common = true
				}
			}
			if !common {
				ex.assertProp("datarace", tt.False)
			}
		}
	}
	ex.assume(tt.And(phi...))
	// 7. after the join the main thread sees the last write to every cell
	keys := make([]cellKey, 0, len(writes))
	for k := range writes {
		keys = append(keys, k)
	}
	sort.Slice(keys, func(i, j int) bool {
		if keys[i].obj.ID != keys[j].obj.ID {
			return keys[i].obj.ID < keys[j].obj.ID
		}
		return keys[i].cell < keys[j].cell
	})
	end := tt.Const(W, mask(W))
	for _, k := range keys {
		init := k.obj.Cells[k.cell].(*Term)
		fv := tt.Var(fmt.Sprintf("final!%d.%d.w%d", k.obj.ID, k.cell, init.W), init.W)
		ex.addPC(rf(k, end, fv))
		k.obj.Cells[k.cell] = fv
	}
	ex.threads = nil
}
