package main

// Placeholder for the schedule encoding (C07); filled in later.

type threadCtx struct{}

func (t *threadCtx) lockEvent(ex *Exec, p *PtrVal, lock bool) {
	ex.unsupported("thread mode not built yet")
}

func (ex *Exec) threadIntrinsic(name string, args []Value) Value {
	ex.unsupported("thread mode not built yet")
	return nil
}
