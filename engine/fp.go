package main

// IEEE-754 binary32/binary64 support. Floating-point values travel through the
// executor as bit-vectors holding their IEEE bit pattern; every operation is an
// OpFP term whose kind says which SMT-LIB FloatingPoint function it stands for.
// pion/rtp itself uses no floating point: this exists so that a change that
// introduces it (time conversions are the usual place) is decided, not skipped.
// Rounding is round-to-nearest-even as in Go; float-to-integer conversion
// truncates and, out of range, yields what amd64 yields (the "integer
// indefinite" value 1<<(w-1)) — Go leaves that case implementation-defined.

import (
	"fmt"
	"math"
)

const (
	fpAdd = iota
	fpSub
	fpMul
	fpDiv
	fpLt
	fpLe
	fpEq
	fpFromS // signed integer (any width) -> float
	fpFromU // unsigned integer -> float
	fpToS   // float -> signed integer of width W
	fpToFP  // float32 <-> float64
)

var fpNames = map[int]string{fpAdd: "fp.add", fpSub: "fp.sub", fpMul: "fp.mul", fpDiv: "fp.div", fpLt: "fp.lt", fpLe: "fp.leq",
	fpEq: "fp.eq", fpFromS: "to_fp", fpFromU: "to_fp_unsigned", fpToS: "fp.to_sbv", fpToFP: "to_fp"}

func (tt *TermTable) FP(kind, w int, args ...*Term) *Term {
	all := true
	for _, a := range args {
		if !a.IsConst() {
			all = false
		}
	}
	if all {
		vals := make([]uint64, len(args))
		for i, a := range args {
			vals[i] = a.Val
		}
		r := evalFP(kind, w, args[0].W, vals)
		if w == 0 {
			return tt.Bool(r != 0)
		}
		return tt.Const(w, r)
	}
	return tt.intern(&Term{Op: OpFP, W: w, Hi: kind, Args: args})
}

func bitsToF(w int, v uint64) float64 {
	if w == 32 {
		return float64(math.Float32frombits(uint32(v)))
	}
	return math.Float64frombits(v)
}

func fToBits(w int, f float64) uint64 {
	if w == 32 {
		return uint64(math.Float32bits(float32(f)))
	}
	return math.Float64bits(f)
}

// evalFP computes an operation on concrete values; aw is the width of the first argument.
func evalFP(kind, w, aw int, v []uint64) uint64 {
	b2u := func(b bool) uint64 {
		if b {
			return 1
		}
		return 0
	}
	switch kind {
	case fpAdd, fpSub, fpMul, fpDiv:
		if w == 32 {
			x, y := math.Float32frombits(uint32(v[0])), math.Float32frombits(uint32(v[1]))
			var r float32
			switch kind {
			case fpAdd:
				r = x + y
			case fpSub:
				r = x - y
			case fpMul:
				r = x * y
			default:
				r = x / y
			}
			return uint64(math.Float32bits(r))
		}
		x, y := math.Float64frombits(v[0]), math.Float64frombits(v[1])
		var r float64
		switch kind {
		case fpAdd:
			r = x + y
		case fpSub:
			r = x - y
		case fpMul:
			r = x * y
		default:
			r = x / y
		}
		return math.Float64bits(r)
	case fpLt:
		return b2u(bitsToF(aw, v[0]) < bitsToF(aw, v[1]))
	case fpLe:
		return b2u(bitsToF(aw, v[0]) <= bitsToF(aw, v[1]))
	case fpEq:
		return b2u(bitsToF(aw, v[0]) == bitsToF(aw, v[1]))
	case fpFromS:
		x := signExt(v[0], aw)
		if w == 32 {
			return uint64(math.Float32bits(float32(x)))
		}
		return math.Float64bits(float64(x))
	case fpFromU:
		x := v[0] & mask(aw)
		if w == 32 {
			return uint64(math.Float32bits(float32(x)))
		}
		return math.Float64bits(float64(x))
	case fpToS:
		f := bitsToF(aw, v[0])
		lim := math.Ldexp(1, w-1)
		t := math.Trunc(f)
		if f != f || t < -lim || t >= lim {
			return uint64(1) << uint(w-1)
		}
		return uint64(int64(t)) & mask(w)
	case fpToFP:
		return fToBits(w, bitsToF(aw, v[0]))
	}
	panic("evalFP: unknown kind")
}

func fpSort(w int) string {
	if w == 32 {
		return "8 24"
	}
	return "11 53"
}

func fpOf(w int, bv string) string { return fmt.Sprintf("((_ to_fp %s) %s)", fpSort(w), bv) }

func fpLit(w int, f float64) string {
	if w == 32 {
		return fpOf(32, fmt.Sprintf("#x%08x", math.Float32bits(float32(f))))
	}
	return fpOf(64, fmt.Sprintf("#x%016x", math.Float64bits(f)))
}

func smtFP(t *Term, a []string) string {
	aw := t.Args[0].W
	switch t.Hi {
	case fpAdd, fpSub, fpMul, fpDiv:
		return fmt.Sprintf("(fp.to_ieee_bv (%s RNE %s %s))", fpNames[t.Hi], fpOf(t.W, a[0]), fpOf(t.W, a[1]))
	case fpLt, fpLe, fpEq:
		return fmt.Sprintf("(%s %s %s)", fpNames[t.Hi], fpOf(aw, a[0]), fpOf(aw, a[1]))
	case fpFromS:
		return fmt.Sprintf("(fp.to_ieee_bv ((_ to_fp %s) RNE %s))", fpSort(t.W), a[0])
	case fpFromU:
		return fmt.Sprintf("(fp.to_ieee_bv ((_ to_fp_unsigned %s) RNE %s))", fpSort(t.W), a[0])
	case fpToS:
		f := fpOf(aw, a[0])
		lim := math.Ldexp(1, t.W-1)
		// trunc(f) in [-lim, lim): f > -lim-1 (exact in the source format or rounds to -lim, either is right) and f < lim
		lo := fmt.Sprintf("(fp.geq %s %s)", f, fpLit(aw, -lim))
		if aw == 64 && t.W == 32 {
			lo = fmt.Sprintf("(fp.gt %s %s)", f, fpLit(aw, -lim-1))
		}
		ind := constLit(&Term{Op: OpConst, W: t.W, Val: uint64(1) << uint(t.W-1)})
		return fmt.Sprintf("(ite (and (not (fp.isNaN %s)) %s (fp.lt %s %s)) ((_ fp.to_sbv %d) RTZ %s) %s)", f, lo, f, fpLit(aw, lim), t.W, f, ind)
	case fpToFP:
		return fmt.Sprintf("(fp.to_ieee_bv ((_ to_fp %s) RNE %s))", fpSort(t.W), fpOf(aw, a[0]))
	}
	panic("smtFP: unknown kind")
}
