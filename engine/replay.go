package main

// Native replay: the same harness sources compiled by the real Go toolchain
// with a tape-reading runtime, run against the real /repo build via
// `go test -overlay`.

import (
	"context"
	"encoding/json"
	"fmt"
	"os"
	"os/exec"
	"path/filepath"
	"strings"
	"time"
)

type NativeTape struct {
	Harness string            `json:"harness"`
	Values  []TapeValue       `json:"values"`
	Bounds  map[string]int    `json:"bounds"`
	Expect  map[string]string `json:"expect,omitempty"`
	Pkg     string            `json:"pkg,omitempty"`
	Prop    string            `json:"property,omitempty"`
}

type NativeResult struct {
	Outcome string   `json:"outcome"`
	ID      string   `json:"id"`
	Msg     string   `json:"msg"`
	Covers  []string `json:"covers"`
	Known   []string `json:"known"`
}

var workSeq int

func newWorkDir(verifDir string) (string, error) {
	workSeq++
	d := filepath.Join(verifDir, ".work", fmt.Sprintf("run-%d-%d", os.Getpid(), workSeq))
	return d, os.MkdirAll(d, 0o755)
}

// RunNative executes tapes (all for harnesses of one package, rel dir `rel`).
func RunNative(verifDir, rel string, funcs map[string][]string, tapes []NativeTape, race bool, stressSec ...int) ([]NativeResult, string, error) {
	wd, err := newWorkDir(verifDir)
	if err != nil {
		return nil, "", err
	}
	defer os.RemoveAll(wd)
	virt, dirs, err := harnessOverlay(verifDir, "native")
	if err != nil {
		return nil, "", err
	}
	replace := map[string]string{}
	for v, real := range virt {
		replace[v] = real
	}
	for i, d := range dirs {
		pn, err := pkgNameOfDir(filepath.Join(repoDir, d))
		if err != nil {
			return nil, "", err
		}
		rt, err := runtimeFor(verifDir, "native", pn)
		if err != nil {
			return nil, "", err
		}
		f := filepath.Join(wd, fmt.Sprintf("rt_native_%d.go", i))
		if err := os.WriteFile(f, rt, 0o644); err != nil {
			return nil, "", err
		}
		replace[filepath.Join(repoDir, d, "zz_verif_rt.go")] = f
		if d == rel {
			var sb strings.Builder
			fmt.Fprintf(&sb, "package %s\n\nimport \"testing\"\n\nfunc TestVerifReplay(t *testing.T) {\n\tif err := verifReplayAll(map[string]func(){\n", pn)
			for _, fn := range funcs[rel] {
				fmt.Fprintf(&sb, "\t\t%q: %s,\n", fn, fn)
			}
			sb.WriteString("\t}); err != nil {\n\t\tt.Fatal(err)\n\t}\n}\n")
			tf := filepath.Join(wd, "replay_test.go")
			if err := os.WriteFile(tf, []byte(sb.String()), 0o644); err != nil {
				return nil, "", err
			}
			replace[filepath.Join(repoDir, d, "zz_verif_replay_test.go")] = tf
		}
	}
	ob, _ := json.Marshal(map[string]interface{}{"Replace": replace})
	ovf := filepath.Join(wd, "overlay.json")
	if err := os.WriteFile(ovf, ob, 0o644); err != nil {
		return nil, "", err
	}
	tb, _ := json.Marshal(tapes)
	tf := filepath.Join(wd, "tapes.json")
	rf := filepath.Join(wd, "results.json")
	if err := os.WriteFile(tf, tb, 0o644); err != nil {
		return nil, "", err
	}
	pkg := "./" + rel
	if rel == "" {
		pkg = "."
	}
	args := []string{"test", "-vet=off", "-count=1", "-overlay", ovf, "-run", "^TestVerifReplay$", "-timeout", "600s"}
	if race {
		args = append(args, "-race")
	}
	args = append(args, pkg)
	ctx, cancel := context.WithTimeout(context.Background(), 15*time.Minute)
	defer cancel()
	cmd := exec.CommandContext(ctx, "go", args...)
	cmd.Dir = repoDir
	cmd.Env = append(os.Environ(), "GOFLAGS=-mod=mod", "GOPROXY=off", "GOSUMDB=off", "GOTOOLCHAIN=local",
		"VERIF_TAPES="+tf, "VERIF_RESULTS="+rf)
	if race {
		cmd.Env = append(cmd.Env, "CGO_ENABLED=1", "VERIF_CONCURRENT=1")
	}
	if len(stressSec) > 0 && stressSec[0] > 0 {
		cmd.Env = append(cmd.Env, "VERIF_CONCURRENT=1", fmt.Sprintf("VERIF_STRESS=%d", stressSec[0]))
	}
	out, runErr := cmd.CombinedOutput()
	rb, err := os.ReadFile(rf)
	if err != nil {
		return nil, string(out), fmt.Errorf("native replay produced no results (go test: %v)", runErr)
	}
	var res []NativeResult
	if err := json.Unmarshal(rb, &res); err != nil {
		return nil, string(out), err
	}
	if len(res) != len(tapes) {
		return nil, string(out), fmt.Errorf("native replay returned %d results for %d tapes", len(res), len(tapes))
	}
	return res, string(out), nil
}
