package main

// Harness intrinsics (verif*) and environment stubs. Every stub here is part
// of the claim and is listed in the evidence.

import (
	"fmt"
	"go/types"
	"strings"

	"golang.org/x/tools/go/ssa"
)

type stubFn func(ex *Exec, fn *ssa.Function, args []Value) Value

var stubDocs = map[string]string{
	"fmt.Errorf":           "opaque error value; the %w operand is kept so errors.Is works",
	"fmt.Sprintf":          "opaque string",
	"errors.Is":            "identity walk over the kept %w chain",
	"bytes.Index":          "summary: first-match semantics as a solver term over the cells, result concretised",
	"bytes.Equal":          "cell-wise equality term",
	"(*sync.Mutex).Lock":   "sequential mode: held flag in the mutex state word (double Lock = reported deadlock)",
	"(*sync.Mutex).Unlock": "sequential mode: clears the held flag",
	"sync/atomic.*":        "Add/Load/Store/Swap/CompareAndSwap on 32/64-bit integers: one indivisible read-modify-write; in thread mode a critical section of a per-cell pseudo-mutex, so atomic accesses exclude each other and race with plain ones",
	"time.Unix":            "time.Time modelled as its Unix-nanosecond int64 (sec*1e9+nsec, wrapping)",
	"(time.Time).UnixNano": "returns the modelled int64",
	"(time.Time).After/Before/Equal/Compare/Add/Sub/Unix": "signed comparison / wrapping arithmetic on the modelled int64 nanoseconds (no monotonic reading, no saturation of Sub)",
	"randutil (package init)":                             "globalMathRandomGenerator is left nil by init; harnesses install a nondet fake",
}

func (ex *Exec) freshName(name string) string {
	n := ex.varCount[name]
	ex.varCount[name] = n + 1
	if n == 0 {
		return name
	}
	return fmt.Sprintf("%s#%d", name, n)
}

func (ex *Exec) str(v Value, what string) string {
	s, ok := v.(*StrVal)
	if !ok {
		ex.unsupported("%s must be a constant string", what)
	}
	return s.S
}

func (ex *Exec) freshScalar(name, kind string, w int) *Term {
	nm := ex.freshName(name)
	v := ex.tt.Var(nm, w)
	ex.tape = append(ex.tape, TapeEntry{Name: name, Kind: kind, Terms: []*Term{v}})
	return v
}

func (ex *Exec) bytesOf(v Value, what string) *SliceVal {
	s, ok := v.(*SliceVal)
	if !ok {
		ex.unsupported("%s: expected []byte, got %s", what, describe(v))
	}
	return s
}

// eqBytes builds the term "a and b have equal length and contents".
func (ex *Exec) eqBytes(a, b *SliceVal) *Term {
	tt := ex.tt
	if a.Len.IsConst() && b.Len.IsConst() {
		if a.Len.Val != b.Len.Val {
			return tt.False
		}
		n := int(a.Len.Val)
		if n == 0 {
			return tt.True
		}
		ea, eb := ex.sliceReadElems(a, n), ex.sliceReadElems(b, n)
		r := make([]*Term, 0, n)
		for i := 0; i < n; i++ {
			r = append(r, ex.valueEq(ea[i][0], eb[i][0]))
		}
		return tt.And(r...)
	}
	// symbolic length: guard each position
	max := func(s *SliceVal) int {
		if s.Obj == nil {
			return 0
		}
		m := len(s.Obj.Cells) / s.K
		if s.Len.IsConst() && int(s.Len.Val) < m {
			m = int(s.Len.Val)
		}
		if ub := tt.ubound(s.Len, 0); ub < uint64(m) {
			m = int(ub)
		}
		return m
	}
	n := max(a)
	if mb := max(b); mb < n {
		n = mb
	}
	r := []*Term{tt.Eq(a.Len, b.Len)}
	// lengths above n are impossible for at least one side, so equality needs len <= n
	r = append(r, tt.Ule(a.Len, ex.c64(uint64(n))))
	for i := 0; i < n; i++ {
		ci := ex.c64(uint64(i))
		oa, ob := ex.elemOff(a, ci), ex.elemOff(b, ci)
		if (oa.IsConst() && oa.Val >= uint64(len(a.Obj.Cells))) || (ob.IsConst() && ob.Val >= uint64(len(b.Obj.Cells))) {
			// position i does not exist in one operand: equality needs len <= i
			r = append(r, tt.Ule(a.Len, ci))
			break
		}
		va := ex.cellRead(a.Obj, oa)
		vb := ex.cellRead(b.Obj, ob)
		r = append(r, tt.Implies(tt.Ult(ci, a.Len), ex.valueEq(va, vb)))
	}
	return tt.And(r...)
}

// overlap term: the cap-extents of a and b share at least one cell.
func (ex *Exec) overlapTerm(a, b *SliceVal) *Term {
	tt := ex.tt
	if a.Obj == nil || b.Obj == nil || a.Obj != b.Obj {
		return tt.False
	}
	aLo := ex.elemOff(a, ex.c64(0))
	aHi := ex.elemOff(a, a.Cap)
	bLo := ex.elemOff(b, ex.c64(0))
	bHi := ex.elemOff(b, b.Cap)
	nonEmpty := tt.And(tt.Not(tt.Eq(a.Cap, ex.c64(0))), tt.Not(tt.Eq(b.Cap, ex.c64(0))))
	return tt.And(nonEmpty, tt.Ult(aLo, bHi), tt.Ult(bLo, aHi))
}

func (ex *Exec) intrinsic(name string, fn *ssa.Function, args []Value) Value {
	tt := ex.tt
	switch name {
	case "verifCase":
		nm := ex.str(args[0], "verifCase name")
		lo := ex.term(args[1], "lo")
		hi := ex.term(args[2], "hi")
		if !lo.IsConst() || !hi.IsConst() {
			ex.unsupported("verifCase bounds must be concrete")
		}
		v := ex.caseSplit(nm, int64(lo.Val), int64(hi.Val))
		c := tt.Const(64, uint64(v))
		ex.tape = append(ex.tape, TapeEntry{Name: nm, Kind: "case", Terms: []*Term{c}})
		return c
	case "verifBound":
		nm := ex.str(args[0], "verifBound name")
		v, ok := ex.cfg.Bounds[nm]
		if !ok {
			ex.unsupported("no bound %q configured for this tier", nm)
		}
		return tt.Const(64, uint64(v))
	case "verifBool":
		return ex.freshScalar(ex.str(args[0], "name"), "bool", 0)
	case "verifU8":
		return ex.freshScalar(ex.str(args[0], "name"), "u8", 8)
	case "verifU16":
		return ex.freshScalar(ex.str(args[0], "name"), "u16", 16)
	case "verifU32":
		return ex.freshScalar(ex.str(args[0], "name"), "u32", 32)
	case "verifU64":
		return ex.freshScalar(ex.str(args[0], "name"), "u64", 64)
	case "verifI64":
		return ex.freshScalar(ex.str(args[0], "name"), "i64", 64)
	case "verifInt":
		return ex.freshScalar(ex.str(args[0], "name"), "int", 64)
	case "verifIntn":
		nm := ex.str(args[0], "name")
		n := ex.term(args[1], "n")
		v := ex.freshScalar(nm, "intn", 64)
		ex.assume(tt.Ult(v, n))
		return v
	case "verifBytes":
		nm := ex.str(args[0], "name")
		n := ex.term(args[1], "n")
		if !n.IsConst() {
			ex.unsupported("verifBytes length must be concrete (use verifCase)")
		}
		uniq := ex.freshName(nm)
		o := ex.newObject("input:"+uniq, types.Typ[types.Uint8], int(n.Val))
		o.Sym = true
		e := TapeEntry{Name: nm, Kind: "bytes"}
		for i := range o.Cells {
			v := tt.Var(fmt.Sprintf("%s[%d]", uniq, i), 8)
			o.Cells[i] = v
			e.Terms = append(e.Terms, v)
		}
		ex.tape = append(ex.tape, e)
		return &SliceVal{Obj: o, Off: ex.c64(0), Len: ex.c64(n.Val), Cap: ex.c64(n.Val), Elem: types.Typ[types.Uint8], K: 1}
	case "verifHavoc":
		nm := ex.str(args[0], "name")
		s := ex.bytesOf(args[1], "verifHavoc")
		if s.Obj == nil {
			ex.tape = append(ex.tape, TapeEntry{Name: nm, Kind: "bytes"})
			return nil
		}
		n := ex.concLen(s.Len, "havoc length")
		uniq := ex.freshName(nm)
		e := TapeEntry{Name: nm, Kind: "bytes"}
		for i := 0; i < n; i++ {
			v := tt.Var(fmt.Sprintf("%s[%d]", uniq, i), 8)
			ex.sliceWriteElem(s, i, []Value{v})
			e.Terms = append(e.Terms, v)
		}
		ex.tape = append(ex.tape, e)
		return nil
	case "verifAssume":
		ex.assume(ex.term(args[0], "assumption"))
		return nil
	case "verifAssert":
		ex.assertProp(ex.str(args[0], "assert id"), ex.term(args[1], "assertion"))
		return nil
	case "verifCover":
		ex.coversHit = append(ex.coversHit, ex.str(args[0], "cover id"))
		return nil
	case "verifKnown":
		id := ex.str(args[0], "known-finding id")
		c := ex.term(args[1], "known-finding region")
		if ex.branch(c) {
			ex.known = append(ex.known, id)
			return tt.True
		}
		return tt.False
	case "verifStop":
		ex.abort(abortReturn, "verifStop")
	case "verifEqBytes":
		return ex.eqBytes(ex.bytesOf(args[0], "verifEqBytes"), ex.bytesOf(args[1], "verifEqBytes"))
	case "verifAnd":
		return tt.And(ex.term(args[0], "and"), ex.term(args[1], "and"))
	case "verifOr":
		return tt.Or(ex.term(args[0], "or"), ex.term(args[1], "or"))
	case "verifImplies":
		return tt.Implies(ex.term(args[0], "implies"), ex.term(args[1], "implies"))
	case "verifIteInt":
		return tt.Ite(ex.term(args[0], "ite"), ex.term(args[1], "ite"), ex.term(args[2], "ite"))
	case "verifIsNil":
		return tt.Bool(ex.bytesOf(args[0], "verifIsNil").Obj == nil)
	case "verifDisjoint":
		return tt.Not(ex.overlapTerm(ex.bytesOf(args[0], "verifDisjoint"), ex.bytesOf(args[1], "verifDisjoint")))
	case "verifSameBacking":
		a, b := ex.bytesOf(args[0], "verifSameBacking"), ex.bytesOf(args[1], "verifSameBacking")
		return tt.Bool(a.Obj != nil && a.Obj == b.Obj)
	case "verifOffset":
		// offset of inner's first element relative to outer's first element; -1 when unrelated
		o, in := ex.bytesOf(args[0], "verifOffset"), ex.bytesOf(args[1], "verifOffset")
		if o.Obj == nil || o.Obj != in.Obj {
			return tt.Const(64, ^uint64(0))
		}
		return tt.BvSub(ex.elemOff(in, ex.c64(0)), ex.elemOff(o, ex.c64(0)))
	case "verifThread", "verifJoin", "verifMark", "verifBefore":
		return ex.threadIntrinsic(name, args)
	}
	ex.unsupported("unknown intrinsic %s", name)
	return nil
}

func (p *Program) stubFor(fn *ssa.Function) stubFn {
	p.stubMu.RLock()
	s, ok := p.stubCache[fn]
	p.stubMu.RUnlock()
	if ok {
		return s
	}
	s = p.computeStub(fn)
	p.stubMu.Lock()
	p.stubCache[fn] = s
	p.stubMu.Unlock()
	return s
}

func (p *Program) computeStub(fn *ssa.Function) stubFn {
	name := fn.Name()
	if strings.HasPrefix(name, "verif") && fn.Pkg != nil && p.harnessPkgs[fn.Pkg] && fn.Signature.Recv() == nil &&
		strings.HasSuffix(p.prog.Fset.Position(fn.Pos()).Filename, "zz_verif_rt.go") {
		return func(ex *Exec, fn *ssa.Function, args []Value) Value { return ex.intrinsic(name, fn, args) }
	}
	if name == "init" && fn.Pkg != nil && !p.initPkgs[fn.Pkg] && fn.Signature.Recv() == nil {
		// inits of non-pion packages are not executed (globals of those packages are opaque)
		return func(ex *Exec, fn *ssa.Function, args []Value) Value { return nil }
	}
	full := fn.String()
	switch full {
	case "fmt.Errorf":
		return stubErrorf
	case "fmt.Sprintf", "fmt.Sprint", "fmt.Sprintln":
		return func(ex *Exec, fn *ssa.Function, args []Value) Value { return &StrVal{S: "<formatted>"} }
	case "errors.Is":
		return stubErrorsIs
	case "bytes.Index":
		return stubBytesIndex
	case "bytes.Equal":
		return func(ex *Exec, fn *ssa.Function, args []Value) Value {
			return ex.eqBytes(ex.bytesOf(args[0], "bytes.Equal"), ex.bytesOf(args[1], "bytes.Equal"))
		}
	case "(*sync.Mutex).Lock":
		return stubMutexLock
	case "(*sync.Mutex).Unlock":
		return stubMutexUnlock
	case "(*sync.Mutex).TryLock":
		return func(ex *Exec, fn *ssa.Function, args []Value) Value {
			p := mutexState(ex, args[0])
			if ex.threads != nil {
				return ex.threads.tryLockEvent(ex, p)
			}
			st := ex.term(ex.cellRead(p.Obj, p.Off), "mutex state")
			if ex.branch(ex.tt.Eq(st, ex.tt.Const(st.W, 0))) {
				ex.cellWrite(p.Obj, p.Off, ex.tt.Const(st.W, 1))
				return ex.tt.True
			}
			return ex.tt.False
		}
	case "time.Unix":
		return func(ex *Exec, fn *ssa.Function, args []Value) Value {
			sec, nsec := ex.term(args[0], "sec"), ex.term(args[1], "nsec")
			ns := ex.tt.BvAdd(ex.tt.BvMul(sec, ex.c64(1000000000)), nsec)
			return ex.timeVal(fn.Signature.Results().At(0).Type(), ns)
		}
	case "(time.Time).UnixNano":
		return func(ex *Exec, fn *ssa.Function, args []Value) Value {
			sv, ok := args[0].(*StructVal)
			if !ok {
				ex.unsupported("UnixNano on %s", describe(args[0]))
			}
			return sv.Leaves[1]
		}
	case "sync/atomic.AddUint32", "sync/atomic.AddUint64", "sync/atomic.AddInt32", "sync/atomic.AddInt64", "sync/atomic.AddUintptr":
		return stubAtomic("add")
	case "sync/atomic.LoadUint32", "sync/atomic.LoadUint64", "sync/atomic.LoadInt32", "sync/atomic.LoadInt64", "sync/atomic.LoadUintptr":
		return stubAtomic("load")
	case "sync/atomic.StoreUint32", "sync/atomic.StoreUint64", "sync/atomic.StoreInt32", "sync/atomic.StoreInt64", "sync/atomic.StoreUintptr":
		return stubAtomic("store")
	case "sync/atomic.SwapUint32", "sync/atomic.SwapUint64", "sync/atomic.SwapInt32", "sync/atomic.SwapInt64", "sync/atomic.SwapUintptr":
		return stubAtomic("swap")
	case "sync/atomic.CompareAndSwapUint32", "sync/atomic.CompareAndSwapUint64", "sync/atomic.CompareAndSwapInt32",
		"sync/atomic.CompareAndSwapInt64", "sync/atomic.CompareAndSwapUintptr":
		return stubAtomic("cas")
	case "(time.Time).After", "(time.Time).Before", "(time.Time).Equal", "(time.Time).Compare":
		return func(ex *Exec, fn *ssa.Function, args []Value) Value {
			a, b := ex.timeNs(args[0]), ex.timeNs(args[1])
			switch fn.Name() {
			case "After":
				return ex.tt.Slt(b, a)
			case "Before":
				return ex.tt.Slt(a, b)
			case "Equal":
				return ex.tt.Eq(a, b)
			}
			return ex.tt.Ite(ex.tt.Slt(a, b), ex.c64(^uint64(0)), ex.tt.Ite(ex.tt.Eq(a, b), ex.c64(0), ex.c64(1)))
		}
	case "(time.Time).Add":
		return func(ex *Exec, fn *ssa.Function, args []Value) Value {
			return ex.timeVal(fn.Signature.Results().At(0).Type(), ex.tt.BvAdd(ex.timeNs(args[0]), ex.term(args[1], "duration")))
		}
	case "(time.Time).Sub":
		return func(ex *Exec, fn *ssa.Function, args []Value) Value {
			return ex.tt.BvSub(ex.timeNs(args[0]), ex.timeNs(args[1]))
		}
	case "(time.Time).Unix":
		return func(ex *Exec, fn *ssa.Function, args []Value) Value {
			// floor division by 1e9 (Unix() of instants before 1970 rounds towards minus infinity)
			ns := ex.timeNs(args[0])
			q := ex.tt.BvSdiv(ns, ex.c64(1000000000))
			r := ex.tt.BvSrem(ns, ex.c64(1000000000))
			return ex.tt.Ite(ex.tt.Slt(r, ex.c64(0)), ex.tt.BvSub(q, ex.c64(1)), q)
		}
	case "(time.Time).IsZero":
		return func(ex *Exec, fn *ssa.Function, args []Value) Value {
			// the zero Time is year 1, far outside the modelled int64 nanosecond range around 1970
			return ex.tt.False
		}
	case "github.com/pion/randutil.NewMathRandomGenerator":
		return func(ex *Exec, fn *ssa.Function, args []Value) Value { return &IfaceVal{} }
	}
	return nil
}

func (ex *Exec) timeNs(v Value) *Term {
	sv, ok := v.(*StructVal)
	if !ok || len(sv.Leaves) < 2 {
		ex.unsupported("time.Time operand is %s", describe(v))
	}
	return ex.term(sv.Leaves[1], "time.Time nanoseconds")
}

func (ex *Exec) timeVal(t types.Type, ns *Term) Value {
	leaves := ex.zeroLeaves(t, nil)
	leaves[1] = ns
	return &StructVal{Typ: t, Leaves: leaves}
}

func stubErrorf(ex *Exec, fn *ssa.Function, args []Value) Value {
	format := "?"
	if s, ok := args[0].(*StrVal); ok {
		format = s.S
	}
	ov := &OpaqueVal{What: "fmt.Errorf(" + format + ")"}
	if strings.Contains(format, "%w") && len(args) > 1 {
		if sl, ok := args[1].(*SliceVal); ok && sl.Obj != nil {
			n := ex.concLen(sl.Len, "variadic length")
			for _, e := range ex.sliceReadElems(sl, n) {
				if iv, ok := e[0].(*IfaceVal); ok && iv.Typ != nil && types.Implements(iv.Typ, under(ex.P.errorType).(*types.Interface)) {
					ov.Wrap = iv
					break
				}
			}
		}
	}
	return &IfaceVal{Typ: ex.P.opaqueErrType, Val: ov}
}

func stubErrorsIs(ex *Exec, fn *ssa.Function, args []Value) Value {
	cur, _ := args[0].(*IfaceVal)
	target, _ := args[1].(*IfaceVal)
	if cur == nil || target == nil {
		ex.unsupported("errors.Is operands")
	}
	for steps := 0; cur != nil && cur.Typ != nil && steps < 16; steps++ {
		eq := ex.valueEq(cur, target)
		if eq.IsTrue() {
			return ex.tt.True
		}
		if !eq.IsFalse() {
			ex.unsupported("errors.Is on symbolic error identity")
		}
		ov, ok := cur.Val.(*OpaqueVal)
		if !ok || ov.Wrap == nil {
			break
		}
		cur, _ = ov.Wrap.(*IfaceVal)
	}
	return ex.tt.False
}

// bytes.Index(s, sep): the smallest i with s[i:i+len(sep)] == sep, else -1.
// The match positions are encoded as terms and the result is concretised, so
// each feasible result is one path (first-match semantics is exact).
func stubBytesIndex(ex *Exec, fn *ssa.Function, args []Value) Value {
	s := ex.bytesOf(args[0], "bytes.Index")
	sep := ex.bytesOf(args[1], "bytes.Index")
	tt := ex.tt
	m := ex.concLen(sep.Len, "bytes.Index separator length")
	n := ex.concLen(s.Len, "bytes.Index haystack length")
	if m == 0 {
		return ex.c64(0)
	}
	res := tt.Const(64, ^uint64(0))
	if n >= m {
		se := ex.sliceReadElems(s, n)
		pe := ex.sliceReadElems(sep, m)
		for i := n - m; i >= 0; i-- {
			match := tt.True
			for j := 0; j < m; j++ {
				match = tt.And(match, ex.valueEq(se[i+j][0], pe[j][0]))
			}
			res = tt.Ite(match, ex.c64(uint64(i)), res)
		}
	}
	v := ex.concretize(res, "bytes.Index result", n+2)
	return ex.c64(v)
}

func mutexState(ex *Exec, v Value) *PtrVal {
	p, ok := v.(*PtrVal)
	if !ok || p.Obj == nil {
		ex.check(ex.tt.False, "nil mutex")
	}
	return p
}

func stubMutexLock(ex *Exec, fn *ssa.Function, args []Value) Value {
	p := mutexState(ex, args[0])
	if ex.threads != nil {
		ex.threads.lockEvent(ex, p, true)
		return nil
	}
	st := ex.term(ex.cellRead(p.Obj, p.Off), "mutex state")
	ex.check(ex.tt.Eq(st, ex.tt.Const(st.W, 0)), "deadlock: Lock of a held mutex")
	ex.cellWrite(p.Obj, p.Off, ex.tt.Const(st.W, 1))
	return nil
}

func stubMutexUnlock(ex *Exec, fn *ssa.Function, args []Value) Value {
	p := mutexState(ex, args[0])
	if ex.threads != nil {
		ex.threads.lockEvent(ex, p, false)
		return nil
	}
	st := ex.term(ex.cellRead(p.Obj, p.Off), "mutex state")
	ex.check(ex.tt.Eq(st, ex.tt.Const(st.W, 1)), "Unlock of an unlocked mutex")
	ex.cellWrite(p.Obj, p.Off, ex.tt.Const(st.W, 0))
	return nil
}

// stubAtomic models the sync/atomic integer functions. Sequentially they are a
// plain read-modify-write. In thread mode the operation is bracketed by
// Lock/Unlock events of a pseudo-mutex that belongs to the addressed cell:
// the schedule encoding then keeps two atomic operations on one cell apart,
// and the lockset check reports a data race when the same cell is also
// accessed without sync/atomic.
func stubAtomic(op string) stubFn {
	return func(ex *Exec, fn *ssa.Function, args []Value) Value {
		p, ok := args[0].(*PtrVal)
		if !ok || p.Obj == nil {
			ex.check(ex.tt.False, "nil pointer passed to sync/atomic")
		}
		done := func() {}
		if tc := ex.threads; tc != nil && tc.cur >= 0 && ex.sharedAccess(p.Obj) {
			if !p.Off.IsConst() {
				ex.unsupported("atomic access at a symbolic address in thread mode")
			}
			key := cellKey{p.Obj, -1 - int(p.Off.Val)}
			tc.newEvent(ex, evLock, key, nil)
			tc.held[key] = true
			done = func() {
				delete(tc.held, key)
				tc.newEvent(ex, evUnlock, key, nil)
			}
		}
		var res Value
		switch op {
		case "load":
			res = ex.cellRead(p.Obj, p.Off)
		case "store":
			ex.cellWrite(p.Obj, p.Off, args[1])
		case "add":
			old := ex.term(ex.cellRead(p.Obj, p.Off), "atomic operand")
			nv := ex.tt.BvAdd(old, ex.term(args[1], "atomic delta"))
			ex.cellWrite(p.Obj, p.Off, nv)
			res = nv
		case "swap":
			res = ex.cellRead(p.Obj, p.Off)
			ex.cellWrite(p.Obj, p.Off, args[1])
		case "cas":
			old := ex.term(ex.cellRead(p.Obj, p.Off), "atomic operand")
			eq := ex.tt.Eq(old, ex.term(args[1], "atomic old"))
			if ex.branch(eq) {
				ex.cellWrite(p.Obj, p.Off, args[2])
				res = ex.tt.True
			} else {
				res = ex.tt.False
			}
		}
		done()
		return res
	}
}
