package main

// Runtime values of the symbolic interpreter and the flattened memory model.

import (
	"fmt"
	"go/types"

	"golang.org/x/tools/go/ssa"
)

// Value is one of: *Term (integers: W>0, bools: W==0), *PtrVal, *SliceVal,
// *IfaceVal, *StrVal, *FuncVal, *StructVal, TupleVal, *OpaqueVal.
type Value interface{}

// Object is a heap/stack/global allocation: a flat vector of leaf cells.
type Object struct {
	ID    int
	Name  string
	Elem  types.Type // element type; the object is [N]Elem
	N     int
	K     int // leaves per element
	Cells []Value
	Sym   bool // created by verifBytes/verifHavoc (input memory)
}

// PtrVal points at leaf offset Off (a 64-bit term, usually constant) of Obj.
type PtrVal struct {
	Obj  *Object // nil = nil pointer
	Off  *Term
	Elem types.Type // pointee type
}

// SliceVal is a Go slice: elements of type Elem with K leaves each, the i-th
// element living at leaf Base + (Off+i)*K of Obj.
type SliceVal struct {
	Obj  *Object // nil = nil slice
	Base int
	Off  *Term
	Len  *Term
	Cap  *Term
	Elem types.Type
	K    int
}

type IfaceVal struct {
	Typ types.Type // nil = nil interface
	Val Value
}

type StrVal struct{ S string }

type FuncVal struct {
	Fn       *ssa.Function // nil = nil func
	Bindings []Value
	Native   func(ex *Exec, args []Value) Value // harness-independent stubs as values (unused mostly)
}

// StructVal is a struct or array register value, flattened.
type StructVal struct {
	Typ    types.Type
	Leaves []Value
}

type TupleVal []Value

// MapVal is a Go map: a reference to an insertion-ordered association list
// (nil reference = nil map). Keys are compared with the solver, one entry at a
// time, like the linear search the code would otherwise do; iteration visits
// the entries in insertion order (Go leaves the order unspecified: one of the
// permitted orders is explored).
type MapVal struct {
	M *MapObj
}

type MapObj struct {
	Keys []Value
	Vals []Value
}

// mapIter is the state of a range-over-map loop.
type mapIter struct {
	m    *MapObj
	keys []Value // snapshot at loop entry
	pos  int
}

// OpaqueVal stands for values the engine does not model (formatted strings,
// foreign objects); any use beyond passing it around is unsupported.
type OpaqueVal struct {
	What string
	Wrap Value // for errors: the %w operand (an *IfaceVal) if any
	Data interface{}
}

func under(t types.Type) types.Type {
	return types.Unalias(t).Underlying()
}

type layoutCache struct {
	count map[types.Type]int
}

func newLayoutCache() *layoutCache { return &layoutCache{count: map[types.Type]int{}} }

func (lc *layoutCache) leafCount(t types.Type) int {
	if n, ok := lc.count[t]; ok {
		return n
	}
	var n int
	switch u := under(t).(type) {
	case *types.Struct:
		for i := 0; i < u.NumFields(); i++ {
			n += lc.leafCount(u.Field(i).Type())
		}
	case *types.Array:
		n = int(u.Len()) * lc.leafCount(u.Elem())
	case *types.Tuple:
		for i := 0; i < u.Len(); i++ {
			n += lc.leafCount(u.At(i).Type())
		}
	default:
		n = 1
	}
	lc.count[t] = n
	return n
}

func (lc *layoutCache) fieldOffset(st *types.Struct, idx int) int {
	off := 0
	for i := 0; i < idx; i++ {
		off += lc.leafCount(st.Field(i).Type())
	}
	return off
}

func isAggregate(t types.Type) bool {
	switch under(t).(type) {
	case *types.Struct, *types.Array:
		return true
	}
	return false
}

func basicWidth(b *types.Basic) int {
	switch b.Kind() {
	case types.Bool, types.UntypedBool:
		return 0
	case types.Int8, types.Uint8:
		return 8
	case types.Int16, types.Uint16:
		return 16
	case types.Int32, types.Uint32, types.UntypedRune:
		return 32
	case types.Int, types.Uint, types.Int64, types.Uint64, types.Uintptr, types.UntypedInt:
		return 64
	}
	return -1
}

func isSigned(t types.Type) bool {
	if b, ok := under(t).(*types.Basic); ok {
		return b.Info()&types.IsInteger != 0 && b.Info()&types.IsUnsigned == 0
	}
	return false
}

// floatWidth is 32 or 64 for floating-point types and 0 otherwise.
func floatWidth(t types.Type) int {
	if b, ok := under(t).(*types.Basic); ok {
		switch b.Kind() {
		case types.Float32:
			return 32
		case types.Float64, types.UntypedFloat:
			return 64
		}
	}
	return 0
}

func intWidth(t types.Type) int {
	if b, ok := under(t).(*types.Basic); ok {
		return basicWidth(b)
	}
	return -1
}

// zeroLeaves appends the zero value of t, flattened.
func (ex *Exec) zeroLeaves(t types.Type, out []Value) []Value {
	switch u := under(t).(type) {
	case *types.Struct:
		for i := 0; i < u.NumFields(); i++ {
			out = ex.zeroLeaves(u.Field(i).Type(), out)
		}
		return out
	case *types.Array:
		for i := int64(0); i < u.Len(); i++ {
			out = ex.zeroLeaves(u.Elem(), out)
		}
		return out
	case *types.Basic:
		if u.Info()&types.IsString != 0 {
			return append(out, &StrVal{})
		}
		w := basicWidth(u)
		if fw := floatWidth(u); fw > 0 {
			w = fw
		}
		if w < 0 {
			if u.Kind() == types.UnsafePointer {
				return append(out, &PtrVal{})
			}
			return append(out, &OpaqueVal{What: "zero " + u.String()})
		}
		return append(out, ex.tt.Const(w, 0))
	case *types.Pointer:
		return append(out, &PtrVal{Elem: u.Elem()})
	case *types.Slice:
		return append(out, ex.nilSlice(u.Elem()))
	case *types.Interface:
		return append(out, &IfaceVal{})
	case *types.Signature:
		return append(out, &FuncVal{})
	case *types.Map:
		return append(out, &MapVal{})
	case *types.Chan:
		return append(out, &OpaqueVal{What: "nil " + u.String()})
	}
	return append(out, &OpaqueVal{What: "zero ?" + t.String()})
}

func (ex *Exec) nilSlice(elem types.Type) *SliceVal {
	z := ex.tt.Const(64, 0)
	return &SliceVal{Elem: elem, K: ex.lc.leafCount(elem), Off: z, Len: z, Cap: z}
}

func (ex *Exec) zero(t types.Type) Value {
	return ex.pack(t, ex.zeroLeaves(t, nil))
}

func (ex *Exec) pack(t types.Type, leaves []Value) Value {
	if isAggregate(t) {
		return &StructVal{Typ: t, Leaves: leaves}
	}
	if len(leaves) != 1 {
		panic(fmt.Sprintf("pack %s: %d leaves", t, len(leaves)))
	}
	return leaves[0]
}

func unpack(v Value) []Value {
	if s, ok := v.(*StructVal); ok {
		return s.Leaves
	}
	return []Value{v}
}

func (ex *Exec) newObject(name string, elem types.Type, n int) *Object {
	ex.nextObj++
	k := ex.lc.leafCount(elem)
	o := &Object{ID: ex.nextObj, Name: name, Elem: elem, N: n, K: k}
	o.Cells = make([]Value, 0, n*k)
	if n > 0 {
		one := ex.zeroLeaves(elem, nil)
		for i := 0; i < n; i++ {
			o.Cells = append(o.Cells, one...)
		}
	}
	ex.stats.Objects++
	return o
}

func describe(v Value) string {
	switch x := v.(type) {
	case *Term:
		return TermString(x, 4)
	case *PtrVal:
		if x.Obj == nil {
			return "nil-ptr"
		}
		return fmt.Sprintf("&obj%d[%s]", x.Obj.ID, TermString(x.Off, 2))
	case *SliceVal:
		if x.Obj == nil {
			return "nil-slice"
		}
		return fmt.Sprintf("obj%d[%s:+%s]", x.Obj.ID, TermString(x.Off, 2), TermString(x.Len, 2))
	case *IfaceVal:
		if x.Typ == nil {
			return "nil-iface"
		}
		return "iface(" + x.Typ.String() + ")"
	case *StrVal:
		return fmt.Sprintf("%q", x.S)
	case *FuncVal:
		if x.Fn == nil {
			return "nil-func"
		}
		return "func " + x.Fn.String()
	case *StructVal:
		return "struct " + x.Typ.String()
	case TupleVal:
		return fmt.Sprintf("tuple/%d", len(x))
	case *MapVal:
		if x.M == nil {
			return "nil-map"
		}
		return fmt.Sprintf("map/%d", len(x.M.Keys))
	case *OpaqueVal:
		return "opaque(" + x.What + ")"
	case nil:
		return "<nil>"
	}
	return fmt.Sprintf("%T", v)
}
