package main

// Symbolic interpreter for go/ssa. One Exec per worker. A path is executed from
// the harness entry; every solver-derived outcome (branch side, concretised
// value, "check passed") is appended to a decision vector so that a path prefix
// can be re-executed without any solver call (fork = re-execution).

import (
	"fmt"
	"go/constant"
	"go/token"
	"go/types"
	"os"
	"sort"
	"strings"
	"sync/atomic"
	"time"

	"golang.org/x/tools/go/ssa"
)

type abortKind int

const (
	abortDead        abortKind = iota // path condition infeasible / assumption false
	abortViolation                    // path ends in a recorded violation (panic on every input of the path)
	abortUnsupported                  // construct outside the encoder
	abortUnwind                       // unwinding or step budget exhausted
	abortUnknown                      // solver gave no verdict
	abortReturn                       // harness asked to stop (verifStop)
)

type pathAbort struct {
	kind abortKind
	msg  string
}

type TapeEntry struct {
	Name  string
	Kind  string // case, bool, u8, u16, u32, u64, i64, int, bytes, intn
	Terms []*Term
}

type Violation struct {
	Harness string
	Kind    string // assert | panic
	ID      string // assertion id or panic description
	Where   string
	Tape    []TapeValue
	Known   []string // known-finding regions active on the path
	Model   Model
	Shape   string
}

type TapeValue struct {
	Name string   `json:"name"`
	Kind string   `json:"kind"`
	V    []uint64 `json:"v"`
}

type PathStats struct {
	Steps   int
	Objects int
}

type frame struct {
	fn     *ssa.Function
	env    map[ssa.Value]Value
	defers []func()
	visits []int
	caller *frame
}

type Exec struct {
	P                                  *Program
	tt                                 *TermTable
	lc                                 *layoutCache
	solver                             *Solver
	fallbacks                          []*Solver
	race                               bool
	cross                              *Solver
	crossSeq                           uint64
	nCross, nCrossAgree, nCrossUnknown int
	verdictQuery                       bool
	raceWins                           [8]int
	nFallbacks                         int
	cfg                                *RunConfig

	// per path
	pc        []*Term
	prefix    []uint64
	pos       int
	decisions []uint64
	globals   map[*ssa.Global]*Object
	nextObj   int
	model     Model
	tape      []TapeEntry
	varCount  map[string]int
	stats     PathStats
	known     []string
	coversHit []string
	shape     []string
	depth     int
	curFrame  *frame
	harness   string
	pendKids  [][]uint64 // alternatives discovered on this path
	viol      []*Violation
	knownHits []*Violation
	asserts   map[string]int // assertion id -> times checked on this path
	looseKF   map[string]int
	threads   *threadCtx // non-nil in concurrent mode
	funcsSeen map[*ssa.Function]bool
	varSubst  map[string]*Term
	termSubst map[int]*Term
	rwMemo    map[int]*Term

	// counters (per worker, cumulative)
	nQueries, nUnsat, nSat, nUnknown int
	nModelHits                       int
	nBranchDecisions                 int
}

func (ex *Exec) abort(k abortKind, format string, a ...interface{}) {
	panic(pathAbort{k, fmt.Sprintf(format, a...)})
}

func (ex *Exec) unsupported(format string, a ...interface{}) {
	where := ""
	if ex.curFrame != nil {
		where = " in " + ex.curFrame.fn.String()
	}
	panic(pathAbort{abortUnsupported, fmt.Sprintf(format, a...) + where})
}

// ---------- path condition, solver ----------

func (ex *Exec) addPC(c *Term) {
	if c.IsTrue() {
		return
	}
	if c.Op == OpAnd {
		ex.pc = append(ex.pc, c.Args...)
		for _, a := range c.Args {
			ex.noteEq(a)
		}
		return
	}
	ex.pc = append(ex.pc, c)
	ex.noteEq(c)
}

// noteEq records "variable = constant" facts implied by a new conjunct; rw then
// substitutes them so that values that became concrete fold.
func (ex *Exec) noteEq(c *Term) {
	switch c.Op {
	case OpEq:
		if c.Args[1].IsConst() {
			ex.bindConst(c.Args[0], c.Args[1].Val)
		}
	case OpVar:
		ex.bindConst(c, 1)
	case OpNot:
		if c.Args[0].Op == OpVar {
			ex.bindConst(c.Args[0], 0)
		}
	}
}

func (ex *Exec) bindConst(a *Term, v uint64) {
	if a.Op != OpVar && a.Op != OpConst {
		if _, ok := ex.termSubst[a.ID]; !ok {
			ex.termSubst[a.ID] = ex.tt.Const(a.W, v)
			ex.rwMemo = nil
		}
	}
	switch a.Op {
	case OpVar:
		if _, ok := ex.varSubst[a.Name]; !ok {
			ex.varSubst[a.Name] = ex.tt.Const(a.W, v)
			ex.rwMemo = nil
		}
	case OpZext:
		if v <= mask(a.Args[0].W) {
			ex.bindConst(a.Args[0], v)
		}
	case OpBvAdd:
		if a.Args[1].IsConst() {
			ex.bindConst(a.Args[0], (v-a.Args[1].Val)&mask(a.W))
		}
	}
}

// rw substitutes the variables fixed by the path condition (bottom-up rebuild).
func (ex *Exec) rw(t *Term) *Term {
	if (len(ex.varSubst) == 0 && len(ex.termSubst) == 0) || t.IsConst() {
		return t
	}
	if ex.rwMemo == nil {
		ex.rwMemo = map[int]*Term{}
	}
	if r, ok := ex.rwMemo[t.ID]; ok {
		return r
	}
	var r *Term
	if c, ok := ex.termSubst[t.ID]; ok {
		r = c
	} else if t.Op == OpVar {
		if c, ok := ex.varSubst[t.Name]; ok {
			r = c
		} else {
			r = t
		}
	} else {
		changed := false
		args := make([]*Term, len(t.Args))
		for i, a := range t.Args {
			args[i] = ex.rw(a)
			if args[i] != a {
				changed = true
			}
		}
		if !changed {
			r = t
		} else {
			r = ex.rebuild(t, args)
		}
	}
	ex.rwMemo[t.ID] = r
	return r
}

func (ex *Exec) rebuild(t *Term, a []*Term) *Term {
	tt := ex.tt
	switch t.Op {
	case OpNot:
		return tt.Not(a[0])
	case OpAnd:
		return tt.And(a...)
	case OpOr:
		return tt.Or(a...)
	case OpEq:
		return tt.Eq(a[0], a[1])
	case OpIte:
		return tt.Ite(a[0], a[1], a[2])
	case OpBvNot:
		return tt.BvNot(a[0])
	case OpBvNeg:
		return tt.BvNeg(a[0])
	case OpBvAnd:
		return tt.BvAnd(a[0], a[1])
	case OpBvOr:
		return tt.BvOr(a[0], a[1])
	case OpBvXor:
		return tt.BvXor(a[0], a[1])
	case OpBvAdd:
		return tt.BvAdd(a[0], a[1])
	case OpBvSub:
		return tt.BvSub(a[0], a[1])
	case OpBvMul:
		return tt.BvMul(a[0], a[1])
	case OpBvUdiv:
		return tt.BvUdiv(a[0], a[1])
	case OpBvUrem:
		return tt.BvUrem(a[0], a[1])
	case OpBvSdiv:
		return tt.BvSdiv(a[0], a[1])
	case OpBvSrem:
		return tt.BvSrem(a[0], a[1])
	case OpBvShl:
		return tt.BvShl(a[0], a[1])
	case OpBvLshr:
		return tt.BvLshr(a[0], a[1])
	case OpBvAshr:
		return tt.BvAshr(a[0], a[1])
	case OpUlt:
		return tt.Ult(a[0], a[1])
	case OpUle:
		return tt.Ule(a[0], a[1])
	case OpSlt:
		return tt.Slt(a[0], a[1])
	case OpSle:
		return tt.Sle(a[0], a[1])
	case OpConcat:
		return tt.Concat(a[0], a[1])
	case OpExtract:
		return tt.Extract(a[0], t.Hi, t.Lo)
	case OpZext:
		return tt.Zext(a[0], t.W)
	case OpSext:
		return tt.Sext(a[0], t.W)
	case OpFP:
		return tt.FP(t.Hi, t.W, a...)
	}
	panic("rebuild: unknown op")
}

func (ex *Exec) rwSlice(s *SliceVal) *SliceVal {
	if (len(ex.varSubst) == 0 && len(ex.termSubst) == 0) || (s.Off.IsConst() && s.Len.IsConst() && s.Cap.IsConst()) {
		return s
	}
	o, l, c := ex.rw(s.Off), ex.rw(s.Len), ex.rw(s.Cap)
	if o == s.Off && l == s.Len && c == s.Cap {
		return s
	}
	n := *s
	n.Off, n.Len, n.Cap = o, l, c
	return &n
}

func (ex *Exec) mapOf(v Value) *MapVal {
	m, ok := v.(*MapVal)
	if !ok {
		ex.unsupported("map operation on %s", describe(v))
	}
	return m
}

// mapFind returns the index of the entry whose key equals k (deciding each
// comparison like a branch), or -1.
func (ex *Exec) mapFind(m *MapObj, k Value) int {
	for j, kk := range m.Keys {
		if ex.branch(ex.valueEq(kk, k)) {
			return j
		}
	}
	return -1
}

func (ex *Exec) rwValue(v Value) Value {
	switch x := v.(type) {
	case *Term:
		return ex.rw(x)
	case *SliceVal:
		return ex.rwSlice(x)
	case *PtrVal:
		if x.Obj != nil && !x.Off.IsConst() {
			if o := ex.rw(x.Off); o != x.Off {
				n := *x
				n.Off = o
				return &n
			}
		}
	}
	return v
}

func (ex *Exec) modelSatisfies(extra *Term) bool {
	if ex.model == nil {
		return false
	}
	memo := map[int]uint64{}
	for _, c := range ex.pc {
		if ex.model.Eval(c, memo) == 0 {
			return false
		}
	}
	if extra != nil && ex.model.Eval(extra, memo) == 0 {
		return false
	}
	return true
}

func termVars(t *Term, seen map[int]bool, out map[string]*Term) {
	if seen[t.ID] {
		return
	}
	seen[t.ID] = true
	if t.Op == OpVar {
		out[t.Name] = t
		return
	}
	for _, a := range t.Args {
		termVars(a, seen, out)
	}
}

// slice returns the path-condition conjuncts transitively sharing variables
// with c (constraint independence).
func (ex *Exec) sliceFor(c *Term, focus *Term) []*Term {
	if ex.cfg.NoSlicing {
		return ex.pc
	}
	type cv struct {
		t    *Term
		vars map[string]*Term
	}
	items := make([]cv, len(ex.pc))
	for i, p := range ex.pc {
		vs := map[string]*Term{}
		termVars(p, map[int]bool{}, vs)
		items[i] = cv{p, vs}
	}
	want := map[string]*Term{}
	termVars(c, map[int]bool{}, want)
	if focus != nil {
		termVars(focus, map[int]bool{}, want)
	}
	used := make([]bool, len(items))
	var out []*Term
	for changed := true; changed; {
		changed = false
		for i := range items {
			if used[i] {
				continue
			}
			hit := len(items[i].vars) == 0
			for v := range items[i].vars {
				if _, ok := want[v]; ok {
					hit = true
					break
				}
			}
			if hit {
				used[i] = true
				changed = true
				out = append(out, items[i].t)
				for v, t := range items[i].vars {
					want[v] = t
				}
			}
		}
	}
	return out
}

// solve decides pc ∧ c. On sat the model is merged into ex.model.
func (ex *Exec) solve(c *Term) SatResult { return ex.solveFocus(c, nil) }

// solveFocus additionally keeps every constraint related to the variables of
// focus in the query, so the merged model is meaningful for focus.
func (ex *Exec) solveFocus(c *Term, focus *Term) SatResult {
	if c.IsFalse() {
		return Unsat
	}
	if ex.modelSatisfies(c) {
		ex.nModelHits++
		return Sat
	}
	cons := ex.sliceFor(c, focus)
	p := NewSMTPrinter()
	for _, x := range cons {
		p.Assert(x)
	}
	p.Assert(c)
	var res SatResult
	var m Model
	var note string
	if ex.race && len(ex.fallbacks) > 0 {
		res, m, note = ex.raceCheck(p.String(), p.Vars)
	} else {
		res, m, note = ex.solver.Check(p.String(), p.Vars)
		for _, fb := range ex.fallbacks {
			if res != Unknown {
				break
			}
			ex.nFallbacks++
			res, m, note = fb.Check(p.String(), p.Vars)
		}
	}
	ex.nQueries++
	if ex.verdictQuery && ex.cross != nil && res != Unknown {
		ex.crossSeq++
		if ex.cfg.CrossEvery <= 1 || (ex.crossSeq+uint64(ex.cfg.Seed))%uint64(ex.cfg.CrossEvery) == 0 {
			cres, _, cnote := ex.cross.Check(p.String(), nil)
			ex.nCross++
			if cres == Unknown {
				ex.nCrossUnknown++
			} else if cres != res {
				ex.abort(abortUnknown, "solver disagreement on a verdict query: %s says %s, %s says %s (%s)", ex.solver.kind, res, ex.cross.kind, cres, cnote)
			} else {
				ex.nCrossAgree++
			}
		}
	}
	switch res {
	case Sat:
		ex.nSat++
		if ex.model == nil {
			ex.model = Model{}
		}
		for k, v := range m {
			ex.model[k] = v
		}
	case Unsat:
		ex.nUnsat++
	default:
		ex.nUnknown++
		ex.abort(abortUnknown, "solver: %s", note)
	}
	return res
}

// raceCheck sends the query to every portfolio member at once; the first
// definite verdict wins and the others are killed (restarted lazily).
func (ex *Exec) raceCheck(body string, vars []*Term) (SatResult, Model, string) {
	type ans struct {
		res  SatResult
		m    Model
		note string
		who  int
	}
	all := append([]*Solver{ex.solver}, ex.fallbacks...)
	ch := make(chan ans, len(all))
	for i, sv := range all {
		go func(i int, sv *Solver) {
			t0 := time.Now()
			r, m, n := sv.Check(body, vars)
			if ex.cfg.Debug {
				fmt.Printf("race: %s -> %s in %.2fs (%s)\n", sv.kind, r, time.Since(t0).Seconds(), n)
			}
			ch <- ans{r, m, n, i}
		}(i, sv)
	}
	var got []ans
	winner := -1
	for len(got) < len(all) {
		a := <-ch
		got = append(got, a)
		if a.res != Unknown && winner < 0 {
			winner = len(got) - 1
			for j, sv := range all {
				if j != a.who {
					sv.Kill()
				}
			}
		}
	}
	if winner < 0 {
		return Unknown, nil, "no portfolio member gave a verdict: " + got[0].note
	}
	// two definite but different verdicts would be a solver disagreement
	for _, a := range got {
		if a.res != Unknown && a.res != got[winner].res {
			return Unknown, nil, "portfolio members disagree on a verdict"
		}
	}
	ex.raceWins[got[winner].who]++
	return got[winner].res, got[winner].m, got[winner].note
}

func (ex *Exec) replaying() bool { return ex.pos < len(ex.prefix) }

func (ex *Exec) nextDecision() uint64 {
	d := ex.prefix[ex.pos]
	ex.pos++
	ex.decisions = append(ex.decisions, d)
	return d
}

func (ex *Exec) record(d uint64) {
	ex.decisions = append(ex.decisions, d)
}

func (ex *Exec) pushAlt(d uint64) {
	alt := make([]uint64, len(ex.decisions)+1)
	copy(alt, ex.decisions)
	alt[len(ex.decisions)] = d
	ex.pendKids = append(ex.pendKids, alt)
}

// branch decides a two-way branch on c and adds the taken side to the pc.
func (ex *Exec) branch(c *Term) bool {
	if c.IsConst() {
		return c.Val != 0
	}
	nc := ex.tt.Not(c)
	if ex.replaying() {
		d := ex.nextDecision()
		switch d {
		case 1:
			ex.addPC(c)
			return true
		case 0:
			ex.addPC(nc)
			return false
		case 3: // forced true (other side infeasible): nothing to add
			return true
		case 2:
			return false
		}
		panic("bad branch decision")
	}
	ex.nBranchDecisions++
	tOK := ex.solve(c) == Sat
	fOK := ex.solve(nc) == Sat
	switch {
	case tOK && fOK:
		ex.pushAlt(0)
		ex.record(1)
		ex.addPC(c)
		return true
	case tOK:
		ex.record(3)
		return true
	case fOK:
		ex.record(2)
		return false
	}
	if ex.cfg.Debug {
		ex.dumpDead(c)
	}
	ex.abort(abortDead, "both branch sides infeasible")
	return false
}

var deadDumps int32

// dumpDead locates the conjunct that made the path condition infeasible.
func (ex *Exec) dumpDead(c *Term) {
	if atomic.AddInt32(&deadDumps, 1) > 3 {
		return
	}
	full := ex.pc
	lo := -1
	for i := 0; i <= len(full); i++ {
		p := NewSMTPrinter()
		for _, x := range full[:i] {
			p.Assert(x)
		}
		res, _, _ := ex.solver.Check(p.String(), nil)
		if res != Sat {
			lo = i
			break
		}
	}
	fmt.Printf("DEAD-DEBUG: branch cond %s\n  pc has %d conjuncts; first unsat prefix length %d\n", TermString(c, 6), len(full), lo)
	if lo > 0 {
		fmt.Printf("  culprit conjunct: %s\n", TermString(full[lo-1], 8))
		p := NewSMTPrinter()
		for _, x := range full[:lo] {
			p.Assert(x)
		}
		os.WriteFile(fmt.Sprintf("/verif/.work/dead-%d.smt2", deadDumps), []byte(p.String()+"(check-sat)\n"), 0o644)
	}
	fmt.Printf("  where: %s decisions=%v\n", ex.where(), ex.decisions)
}

// assume adds c to the pc; the path dies if that is infeasible.
func (ex *Exec) assume(c *Term) {
	if c.IsTrue() {
		return
	}
	if c.IsFalse() {
		ex.abort(abortDead, "assumption false")
	}
	if ex.replaying() {
		ex.nextDecision()
		ex.addPC(c)
		return
	}
	if ex.solve(c) != Sat {
		ex.abort(abortDead, "assumption infeasible")
	}
	ex.record(1)
	ex.addPC(c)
}

// concretize forks over the feasible values of t (at most max of them).
func (ex *Exec) concretize(t *Term, what string, max int) uint64 {
	if t.IsConst() {
		return t.Val
	}
	if ex.replaying() {
		v := ex.nextDecision()
		ex.addPC(ex.tt.Eq(t, ex.tt.Const(t.W, v)))
		return v
	}
	var vals []uint64
	excl := ex.tt.True
	for {
		if ex.solveFocus(excl, t) != Sat {
			break
		}
		v := ex.model.Eval(t, map[int]uint64{})
		vals = append(vals, v)
		if len(vals) > max {
			ex.abort(abortUnwind, "concretize %s: more than %d feasible values", what, max)
		}
		excl = ex.tt.And(excl, ex.tt.Not(ex.tt.Eq(t, ex.tt.Const(t.W, v))))
	}
	if len(vals) == 0 {
		ex.abort(abortDead, "concretize: path infeasible")
	}
	sort.Slice(vals, func(i, j int) bool { return vals[i] < vals[j] })
	for _, v := range vals[1:] {
		ex.pushAlt(v)
	}
	ex.record(vals[0])
	ex.addPC(ex.tt.Eq(t, ex.tt.Const(t.W, vals[0])))
	return vals[0]
}

// caseSplit enumerates lo..hi without consulting the solver.
func (ex *Exec) caseSplit(name string, lo, hi int64) int64 {
	if lo > hi {
		ex.abort(abortDead, "empty case range %s", name)
	}
	var v int64
	if ex.replaying() {
		v = int64(ex.nextDecision())
	} else {
		for x := hi; x > lo; x-- {
			ex.pushAlt(uint64(x))
		}
		ex.record(uint64(lo))
		v = lo
	}
	ex.shape = append(ex.shape, fmt.Sprintf("%s=%d", name, v))
	return v
}

func (ex *Exec) tapeValues(m Model) []TapeValue {
	memo := map[int]uint64{}
	if m == nil {
		m = Model{}
	}
	out := make([]TapeValue, len(ex.tape))
	for i, e := range ex.tape {
		tv := TapeValue{Name: e.Name, Kind: e.Kind, V: make([]uint64, len(e.Terms))}
		for j, t := range e.Terms {
			tv.V[j] = m.Eval(t, memo)
		}
		out[i] = tv
	}
	return out
}

func (ex *Exec) where() string {
	if ex.curFrame == nil {
		return ""
	}
	var parts []string
	for f := ex.curFrame; f != nil && len(parts) < 6; f = f.caller {
		parts = append(parts, f.fn.Name())
	}
	return strings.Join(parts, " < ")
}

// fullModel returns a model of the whole path condition (∧ c).
func (ex *Exec) fullModel(c *Term) Model {
	if !ex.modelSatisfies(c) {
		// slicing may have left unrelated variables stale: ask for everything
		save := ex.cfg.NoSlicing
		ex.cfg.NoSlicing = true
		res := ex.solve(c)
		ex.cfg.NoSlicing = save
		if res != Sat {
			ex.abort(abortUnknown, "could not obtain a full model for a sat query")
		}
	}
	m := Model{}
	for k, v := range ex.model {
		m[k] = v
	}
	return m
}

func (ex *Exec) recordViolation(kind, id string, c *Term) {
	m := ex.fullModel(c)
	v := &Violation{Harness: ex.harness, Kind: kind, ID: id, Where: ex.where(), Tape: ex.tapeValues(m),
		Known: append([]string(nil), ex.known...), Shape: strings.Join(ex.shape, ","), Model: m}
	if kf := ex.P.knownFor(ex.known, kind, id); kf != "" {
		v.Known = []string{kf}
		ex.knownHits = append(ex.knownHits, v)
		return
	}
	ex.viol = append(ex.viol, v)
}

// check is used for implicit panics: ok must hold or the program panics.
func (ex *Exec) check(ok *Term, what string) {
	if ok.IsTrue() {
		return
	}
	if ex.replaying() {
		d := ex.nextDecision()
		if d == 2 {
			ex.abort(abortViolation, "panic: %s", what)
		}
		ex.addPC(ok)
		return
	}
	bad := ex.tt.Not(ok)
	ex.verdictQuery = true
	r := ex.solve(bad)
	ex.verdictQuery = false
	if r == Sat {
		ex.recordViolation("panic", what, bad)
		if ok.IsFalse() || ex.solve(ok) != Sat {
			ex.record(2)
			ex.abort(abortViolation, "panic: %s", what)
		}
		ex.record(1)
	} else {
		ex.record(0)
	}
	ex.addPC(ok)
}

// assert is the harness-level property check.
func (ex *Exec) assertProp(id string, c *Term) {
	ex.asserts[id]++
	if c.IsTrue() {
		return
	}
	if ex.replaying() {
		d := ex.nextDecision()
		if d == 2 {
			ex.abort(abortViolation, "assertion %s fails on the whole path", id)
		}
		ex.addPC(c)
		return
	}
	bad := ex.tt.Not(c)
	ex.verdictQuery = true
	r := ex.solve(bad)
	ex.verdictQuery = false
	if r == Sat {
		ex.recordViolation("assert", id, bad)
		holds := !c.IsFalse() && ex.solve(c) == Sat
		if kf := ex.P.knownFor(ex.known, "assert", id); kf != "" && holds {
			ex.looseKF[kf]++
		}
		if !holds {
			ex.record(2)
			ex.abort(abortViolation, "assertion %s fails on the whole path", id)
		}
		ex.record(1)
	} else {
		ex.record(0)
	}
	ex.addPC(c)
}

// ---------- memory ----------

func (ex *Exec) globalObj(g *ssa.Global) *Object {
	if o, ok := ex.globals[g]; ok {
		return o
	}
	elem := g.Type().(*types.Pointer).Elem()
	o := ex.newObject("global:"+g.String(), elem, 1)
	if !ex.P.initPkgs[g.Pkg] {
		if types.Identical(elem, ex.P.errorType) {
			o.Cells[0] = &IfaceVal{Typ: ex.P.opaqueErrType, Val: &OpaqueVal{What: g.String()}}
		}
	}
	ex.globals[g] = o
	return o
}

func sameKind(a, b Value) bool {
	ta, ok1 := a.(*Term)
	tb, ok2 := b.(*Term)
	return ok1 && ok2 && ta.W == tb.W
}

// cellRead reads one scalar leaf at a possibly symbolic leaf offset.
func (ex *Exec) cellRead(o *Object, off *Term) Value {
	if ex.sharedAccess(o) {
		return ex.threads.readEvent(ex, o, off)
	}
	if off.IsConst() {
		if off.Val >= uint64(len(o.Cells)) {
			ex.unsupported("internal: cell read out of object (%d of %d)", off.Val, len(o.Cells))
		}
		if len(ex.varSubst) != 0 || len(ex.termSubst) != 0 {
			return ex.rwValue(o.Cells[off.Val])
		}
		return o.Cells[off.Val]
	}
	ub := ex.tt.ubound(off, 0)
	n := len(o.Cells)
	if ub < uint64(n-1) {
		n = int(ub) + 1
	}
	var res *Term
	for i := n - 1; i >= 0; i-- {
		t, ok := o.Cells[i].(*Term)
		if !ok {
			// non-scalar cell: concretise the offset
			v := ex.concretize(off, "cell offset", 64)
			return o.Cells[v]
		}
		if res == nil {
			res = t
			continue
		}
		if t.W != res.W {
			v := ex.concretize(off, "cell offset", 64)
			return o.Cells[v]
		}
		res = ex.tt.Ite(ex.tt.Eq(off, ex.tt.Const(64, uint64(i))), t, res)
	}
	if res == nil {
		ex.unsupported("symbolic read of empty object")
	}
	return res
}

func (ex *Exec) cellWrite(o *Object, off *Term, v Value) {
	if ex.sharedAccess(o) && ex.threads.writeEvent(ex, o, off, v) {
		return
	}
	if off.IsConst() {
		if off.Val >= uint64(len(o.Cells)) {
			ex.unsupported("internal: cell write out of object (%d of %d)", off.Val, len(o.Cells))
		}
		o.Cells[off.Val] = v
		return
	}
	nv, ok := v.(*Term)
	if ok {
		allScalar := true
		for _, c := range o.Cells {
			if t, ok := c.(*Term); !ok || t.W != nv.W {
				allScalar = false
				break
			}
		}
		if allScalar {
			ub := ex.tt.ubound(off, 0)
			for i := range o.Cells {
				if uint64(i) > ub {
					break
				}
				o.Cells[i] = ex.tt.Ite(ex.tt.Eq(off, ex.tt.Const(64, uint64(i))), nv, o.Cells[i].(*Term))
			}
			return
		}
	}
	c := ex.concretize(off, "cell offset", 64)
	o.Cells[c] = v
}

func (ex *Exec) load(p *PtrVal, t types.Type) Value {
	if p.Obj == nil {
		ex.check(ex.tt.False, "nil pointer dereference")
	}
	k := ex.lc.leafCount(t)
	if k == 0 {
		return ex.pack(t, nil)
	}
	if k == 1 {
		return ex.pack(t, []Value{ex.cellRead(p.Obj, p.Off)})
	}
	if ex.sharedAccess(p.Obj) {
		ex.unsupported("aggregate load of shared memory in thread mode")
	}
	off := p.Off
	if !off.IsConst() {
		off = ex.tt.Const(64, ex.concretize(off, "aggregate offset", 64))
	}
	if off.Val+uint64(k) > uint64(len(p.Obj.Cells)) {
		ex.unsupported("internal: aggregate load out of object")
	}
	leaves := make([]Value, k)
	copy(leaves, p.Obj.Cells[off.Val:off.Val+uint64(k)])
	return ex.pack(t, leaves)
}

func (ex *Exec) store(p *PtrVal, v Value) {
	if p.Obj == nil {
		ex.check(ex.tt.False, "nil pointer dereference")
	}
	leaves := unpack(v)
	if len(leaves) == 0 {
		return
	}
	if len(leaves) == 1 {
		ex.cellWrite(p.Obj, p.Off, leaves[0])
		return
	}
	off := p.Off
	if !off.IsConst() {
		off = ex.tt.Const(64, ex.concretize(off, "aggregate offset", 64))
	}
	if off.Val+uint64(len(leaves)) > uint64(len(p.Obj.Cells)) {
		ex.unsupported("internal: aggregate store out of object")
	}
	copy(p.Obj.Cells[off.Val:], leaves)
}

func (ex *Exec) c64(v uint64) *Term { return ex.tt.Const(64, v) }

// elemOff returns the leaf offset term of element i of s.
func (ex *Exec) elemOff(s *SliceVal, i *Term) *Term {
	idx := ex.tt.BvAdd(s.Off, i)
	if s.K != 1 {
		idx = ex.tt.BvMul(idx, ex.c64(uint64(s.K)))
	}
	return ex.tt.BvAdd(idx, ex.c64(uint64(s.Base)))
}

// sliceRead reads n elements (scalar element type) of s as terms.
func (ex *Exec) sliceReadElems(s *SliceVal, n int) [][]Value {
	out := make([][]Value, n)
	for i := 0; i < n; i++ {
		off := ex.elemOff(s, ex.c64(uint64(i)))
		if s.K == 1 {
			out[i] = []Value{ex.cellRead(s.Obj, off)}
			continue
		}
		if !off.IsConst() {
			off = ex.c64(ex.concretize(off, "slice element offset", 64))
		}
		out[i] = append([]Value(nil), s.Obj.Cells[off.Val:off.Val+uint64(s.K)]...)
	}
	return out
}

func (ex *Exec) sliceWriteElem(s *SliceVal, i int, leaves []Value) {
	off := ex.elemOff(s, ex.c64(uint64(i)))
	if s.K == 1 {
		ex.cellWrite(s.Obj, off, leaves[0])
		return
	}
	if !off.IsConst() {
		off = ex.c64(ex.concretize(off, "slice element offset", 64))
	}
	copy(s.Obj.Cells[off.Val:], leaves)
}

func (ex *Exec) concLen(t *Term, what string) int {
	return int(ex.concretize(t, what, ex.cfg.MaxConcretize))
}

// ---------- constants ----------

func (ex *Exec) constVal(c *ssa.Const) Value {
	t := c.Type()
	if c.Value == nil {
		return ex.zero(t)
	}
	switch u := under(t).(type) {
	case *types.Basic:
		switch {
		case u.Info()&types.IsBoolean != 0:
			return ex.tt.Bool(constant.BoolVal(c.Value))
		case u.Info()&types.IsString != 0:
			return &StrVal{constant.StringVal(c.Value)}
		case u.Info()&types.IsInteger != 0:
			w := basicWidth(u)
			if v, ok := constant.Uint64Val(constant.ToInt(c.Value)); ok {
				return ex.tt.Const(w, v)
			}
			if v, ok := constant.Int64Val(constant.ToInt(c.Value)); ok {
				return ex.tt.Const(w, uint64(v))
			}
		case floatWidth(u) > 0:
			f, _ := constant.Float64Val(c.Value)
			return ex.tt.Const(floatWidth(u), fToBits(floatWidth(u), f))
		}
	}
	return &OpaqueVal{What: "const " + c.String()}
}

func (ex *Exec) get(fr *frame, v ssa.Value) Value {
	switch x := v.(type) {
	case *ssa.Const:
		return ex.constVal(x)
	case *ssa.Global:
		return &PtrVal{Obj: ex.globalObj(x), Off: ex.c64(0), Elem: x.Type().(*types.Pointer).Elem()}
	case *ssa.Function:
		return &FuncVal{Fn: x}
	case *ssa.Builtin:
		return x
	}
	r, ok := fr.env[v]
	if !ok {
		ex.unsupported("internal: no value for %s (%T)", v.Name(), v)
	}
	if len(ex.varSubst) != 0 || len(ex.termSubst) != 0 {
		return ex.rwValue(r)
	}
	return r
}

func (ex *Exec) term(v Value, what string) *Term {
	t, ok := v.(*Term)
	if !ok {
		ex.unsupported("expected scalar for %s, got %s", what, describe(v))
	}
	return t
}

// ---------- calls ----------

func (ex *Exec) callFunc(fn *ssa.Function, args []Value, bindings []Value) Value {
	if h := ex.P.stubFor(fn); h != nil {
		return h(ex, fn, args)
	}
	if fn.Blocks == nil {
		ex.unsupported("call to external function %s", fn.String())
	}
	ex.funcsSeen[fn] = true
	ex.depth++
	if ex.depth > 200 {
		ex.abort(abortUnwind, "call depth exceeded")
	}
	fr := &frame{fn: fn, env: make(map[ssa.Value]Value, 32), visits: make([]int, len(fn.Blocks)), caller: ex.curFrame}
	for i, p := range fn.Params {
		fr.env[p] = args[i]
	}
	for i, fv := range fn.FreeVars {
		fr.env[fv] = bindings[i]
	}
	saved := ex.curFrame
	ex.curFrame = fr
	res := ex.run(fr)
	ex.curFrame = saved
	ex.depth--
	return res
}

func (ex *Exec) run(fr *frame) Value {
	block := fr.fn.Blocks[0]
	var prev *ssa.BasicBlock
	for {
		fr.visits[block.Index]++
		if fr.visits[block.Index] > ex.cfg.Unwind {
			ex.abort(abortUnwind, "unwinding bound %d exceeded in %s block %d", ex.cfg.Unwind, fr.fn.String(), block.Index)
		}
		// phis first, simultaneously
		nphi := 0
		var phiVals []Value
		for _, in := range block.Instrs {
			phi, ok := in.(*ssa.Phi)
			if !ok {
				break
			}
			nphi++
			idx := -1
			for i, p := range block.Preds {
				if p == prev {
					idx = i
					break
				}
			}
			phiVals = append(phiVals, ex.get(fr, phi.Edges[idx]))
		}
		for i := 0; i < nphi; i++ {
			fr.env[block.Instrs[i].(*ssa.Phi)] = phiVals[i]
		}
		var next *ssa.BasicBlock
		for _, in := range block.Instrs[nphi:] {
			ex.stats.Steps++
			if ex.stats.Steps > ex.cfg.MaxSteps {
				ex.abort(abortUnwind, "step budget %d exhausted", ex.cfg.MaxSteps)
			}
			switch i := in.(type) {
			case *ssa.If:
				c := ex.term(ex.get(fr, i.Cond), "if condition")
				if ex.branch(c) {
					next = block.Succs[0]
				} else {
					next = block.Succs[1]
				}
			case *ssa.Jump:
				next = block.Succs[0]
			case *ssa.Return:
				var res Value
				switch len(i.Results) {
				case 0:
				case 1:
					res = ex.get(fr, i.Results[0])
				default:
					tv := make(TupleVal, len(i.Results))
					for k, r := range i.Results {
						tv[k] = ex.get(fr, r)
					}
					res = tv
				}
				return res
			case *ssa.Panic:
				ex.check(ex.tt.False, "explicit panic: "+describe(ex.get(fr, i.X)))
			case *ssa.RunDefers:
				for k := len(fr.defers) - 1; k >= 0; k-- {
					fr.defers[k]()
				}
				fr.defers = nil
			default:
				ex.step(fr, in)
			}
		}
		if next == nil {
			ex.unsupported("internal: block without terminator")
		}
		prev, block = block, next
	}
}

func (ex *Exec) doCall(fr *frame, c *ssa.CallCommon) Value {
	args := make([]Value, 0, len(c.Args)+1)
	if c.IsInvoke() {
		recv, ok := ex.get(fr, c.Value).(*IfaceVal)
		if !ok {
			ex.unsupported("invoke on non-interface value")
		}
		if recv.Typ == nil {
			ex.check(ex.tt.False, "nil interface method call")
		}
		if ov, ok := recv.Val.(*OpaqueVal); ok && recv.Typ == ex.P.opaqueErrType {
			if c.Method.Name() == "Error" {
				return &StrVal{S: "<" + ov.What + ">"}
			}
			if c.Method.Name() == "Unwrap" {
				if ov.Wrap != nil {
					return ov.Wrap
				}
				return &IfaceVal{}
			}
		}
		fn := ex.P.prog.LookupMethod(recv.Typ, c.Method.Pkg(), c.Method.Name())
		if fn == nil {
			ex.unsupported("no method %s on %s", c.Method.Name(), recv.Typ)
		}
		args = append(args, recv.Val)
		for _, a := range c.Args {
			args = append(args, ex.get(fr, a))
		}
		return ex.callFunc(fn, args, nil)
	}
	for _, a := range c.Args {
		args = append(args, ex.get(fr, a))
	}
	switch f := c.Value.(type) {
	case *ssa.Builtin:
		return ex.builtin(fr, f, c, args)
	case *ssa.Function:
		return ex.callFunc(f, args, nil)
	}
	fv, ok := ex.get(fr, c.Value).(*FuncVal)
	if !ok {
		ex.unsupported("call of non-function value")
	}
	if fv.Fn == nil {
		ex.check(ex.tt.False, "call of nil func")
	}
	return ex.callFunc(fv.Fn, args, fv.Bindings)
}

// ---------- instructions ----------

func (ex *Exec) step(fr *frame, in ssa.Instruction) {
	switch i := in.(type) {
	case *ssa.DebugRef:
	case *ssa.Alloc:
		elem := i.Type().(*types.Pointer).Elem()
		o := ex.newObject(i.Comment, elem, 1)
		fr.env[i] = &PtrVal{Obj: o, Off: ex.c64(0), Elem: elem}
	case *ssa.BinOp:
		fr.env[i] = ex.binop(i.Op, ex.get(fr, i.X), ex.get(fr, i.Y), i.X.Type(), i.Y.Type())
	case *ssa.UnOp:
		fr.env[i] = ex.unop(fr, i)
	case *ssa.Call:
		fr.env[i] = ex.doCall(fr, &i.Call)
	case *ssa.Defer:
		call := i.Call
		// evaluate operands now, run later
		var thunk func()
		if call.IsInvoke() {
			ex.unsupported("defer of interface method")
		}
		args := make([]Value, len(call.Args))
		for k, a := range call.Args {
			args[k] = ex.get(fr, a)
		}
		switch f := call.Value.(type) {
		case *ssa.Function:
			thunk = func() { ex.callFunc(f, args, nil) }
		default:
			fv, ok := ex.get(fr, call.Value).(*FuncVal)
			if !ok || fv.Fn == nil {
				ex.unsupported("defer of unsupported callee")
			}
			thunk = func() { ex.callFunc(fv.Fn, args, fv.Bindings) }
		}
		fr.defers = append(fr.defers, thunk)
	case *ssa.Store:
		p, ok := ex.get(fr, i.Addr).(*PtrVal)
		if !ok {
			ex.unsupported("store through non-pointer")
		}
		ex.store(p, ex.get(fr, i.Val))
	case *ssa.FieldAddr:
		p, ok := ex.get(fr, i.X).(*PtrVal)
		if !ok {
			ex.unsupported("fieldaddr of non-pointer")
		}
		if p.Obj == nil {
			ex.check(ex.tt.False, "nil pointer dereference (field address)")
		}
		st := under(i.X.Type().(*types.Pointer).Elem()).(*types.Struct)
		off := ex.lc.fieldOffset(st, i.Field)
		fr.env[i] = &PtrVal{Obj: p.Obj, Off: ex.tt.BvAdd(p.Off, ex.c64(uint64(off))), Elem: st.Field(i.Field).Type()}
	case *ssa.Field:
		sv, ok := ex.get(fr, i.X).(*StructVal)
		if !ok {
			ex.unsupported("field of non-struct value")
		}
		st := under(i.X.Type()).(*types.Struct)
		off := ex.lc.fieldOffset(st, i.Field)
		ft := st.Field(i.Field).Type()
		k := ex.lc.leafCount(ft)
		fr.env[i] = ex.pack(ft, append([]Value(nil), sv.Leaves[off:off+k]...))
	case *ssa.IndexAddr:
		fr.env[i] = ex.indexAddr(fr, i)
	case *ssa.Index:
		fr.env[i] = ex.indexVal(fr, i)
	case *ssa.Slice:
		fr.env[i] = ex.sliceOp(fr, i)
	case *ssa.MakeSlice:
		st := under(i.Type()).(*types.Slice)
		ln := ex.sext64(ex.get(fr, i.Len), i.Len.Type())
		cp := ex.sext64(ex.get(fr, i.Cap), i.Cap.Type())
		ex.check(ex.tt.Sle(ex.c64(0), ln), "makeslice: len out of range")
		ex.check(ex.tt.Sle(ln, cp), "makeslice: cap out of range")
		if !cp.IsConst() {
			if ub := ex.tt.ubound(cp, 0); ub <= 4 {
				// small symbolic size: allocate the maximum and keep len/cap symbolic (no fork)
				o := ex.newObject("make", st.Elem(), int(ub))
				fr.env[i] = &SliceVal{Obj: o, Off: ex.c64(0), Len: ln, Cap: cp, Elem: st.Elem(), K: o.K}
				break
			}
		}
		n := ex.concLen(cp, "make cap")
		if n > ex.cfg.MaxAlloc {
			ex.abort(abortUnwind, "allocation of %d elements exceeds the bound %d", n, ex.cfg.MaxAlloc)
		}
		o := ex.newObject("make", st.Elem(), n)
		fr.env[i] = &SliceVal{Obj: o, Off: ex.c64(0), Len: ln, Cap: ex.c64(uint64(n)), Elem: st.Elem(), K: o.K}
	case *ssa.MakeClosure:
		fv := &FuncVal{Fn: i.Fn.(*ssa.Function)}
		for _, b := range i.Bindings {
			fv.Bindings = append(fv.Bindings, ex.get(fr, b))
		}
		fr.env[i] = fv
	case *ssa.MakeInterface:
		fr.env[i] = &IfaceVal{Typ: i.X.Type(), Val: ex.get(fr, i.X)}
	case *ssa.ChangeInterface:
		fr.env[i] = ex.get(fr, i.X)
	case *ssa.ChangeType:
		v := ex.get(fr, i.X)
		if sv, ok := v.(*StructVal); ok {
			v = &StructVal{Typ: i.Type(), Leaves: sv.Leaves}
		}
		fr.env[i] = v
	case *ssa.Convert:
		fr.env[i] = ex.convert(ex.get(fr, i.X), i.X.Type(), i.Type())
	case *ssa.Extract:
		tv, ok := ex.get(fr, i.Tuple).(TupleVal)
		if !ok {
			ex.unsupported("extract from non-tuple")
		}
		fr.env[i] = tv[i.Index]
	case *ssa.TypeAssert:
		fr.env[i] = ex.typeAssert(fr, i)
	case *ssa.MakeMap:
		fr.env[i] = &MapVal{M: &MapObj{}}
	case *ssa.MapUpdate:
		m := ex.mapOf(ex.get(fr, i.Map))
		if m.M == nil {
			ex.check(ex.tt.False, "assignment to entry in nil map")
		}
		k, v := ex.get(fr, i.Key), ex.get(fr, i.Value)
		if at := ex.mapFind(m.M, k); at >= 0 {
			m.M.Vals[at] = v
		} else {
			m.M.Keys, m.M.Vals = append(m.M.Keys, k), append(m.M.Vals, v)
		}
	case *ssa.Lookup:
		if _, isMap := under(i.X.Type()).(*types.Map); !isMap {
			ex.unsupported("SSA instruction %T (%s)", in, in.String())
		}
		m := ex.mapOf(ex.get(fr, i.X))
		vt := under(i.X.Type()).(*types.Map).Elem()
		at := -1
		if m.M != nil {
			at = ex.mapFind(m.M, ex.get(fr, i.Index))
		}
		var v Value
		if at >= 0 {
			v = m.M.Vals[at]
		} else {
			v = ex.zero(vt)
		}
		if i.CommaOk {
			fr.env[i] = TupleVal{v, ex.tt.Bool(at >= 0)}
		} else {
			fr.env[i] = v
		}
	case *ssa.Range:
		m, ok := ex.get(fr, i.X).(*MapVal)
		if !ok {
			ex.unsupported("range over %s", describe(ex.get(fr, i.X)))
		}
		it := &mapIter{}
		if m.M != nil {
			it.m = m.M
			it.keys = append([]Value(nil), m.M.Keys...)
		}
		fr.env[i] = &OpaqueVal{What: "map iterator", Data: it}
	case *ssa.Next:
		ov, _ := ex.get(fr, i.Iter).(*OpaqueVal)
		var it *mapIter
		if ov != nil {
			it, _ = ov.Data.(*mapIter)
		}
		if it == nil {
			ex.unsupported("SSA instruction %T (%s)", in, in.String())
		}
		mt := under(i.Iter.(*ssa.Range).X.Type()).(*types.Map)
		res := TupleVal{ex.tt.False, ex.zero(mt.Key()), ex.zero(mt.Elem())}
		for it.pos < len(it.keys) {
			k := it.keys[it.pos]
			it.pos++
			// entries deleted during the iteration are not produced
			at := -1
			for j, kk := range it.m.Keys {
				if kk == k {
					at = j
				}
			}
			if at >= 0 {
				res = TupleVal{ex.tt.True, k, it.m.Vals[at]}
				break
			}
		}
		fr.env[i] = res
	default:
		ex.unsupported("SSA instruction %T (%s)", in, in.String())
	}
}

func (ex *Exec) sext64(v Value, t types.Type) *Term {
	x := ex.term(v, "integer")
	if x.W == 64 {
		return x
	}
	if isSigned(t) {
		return ex.tt.Sext(x, 64)
	}
	return ex.tt.Zext(x, 64)
}

func (ex *Exec) typeAssert(fr *frame, i *ssa.TypeAssert) Value {
	iv, ok := ex.get(fr, i.X).(*IfaceVal)
	if !ok {
		ex.unsupported("type assertion on non-interface")
	}
	match := false
	if iv.Typ != nil {
		if it, ok := under(i.AssertedType).(*types.Interface); ok {
			match = types.Implements(iv.Typ, it)
		} else {
			match = types.Identical(iv.Typ, i.AssertedType)
		}
	}
	var res Value
	if match {
		if _, isIface := under(i.AssertedType).(*types.Interface); isIface {
			res = iv
		} else {
			res = iv.Val
		}
	} else {
		if !i.CommaOk {
			ex.check(ex.tt.False, "failed type assertion")
		}
		res = ex.zero(i.AssertedType)
	}
	if i.CommaOk {
		return TupleVal{res, ex.tt.Bool(match)}
	}
	return res
}

func (ex *Exec) indexAddr(fr *frame, i *ssa.IndexAddr) Value {
	idx := ex.sext64(ex.get(fr, i.Index), i.Index.Type())
	switch x := ex.get(fr, i.X).(type) {
	case *SliceVal:
		ex.check(ex.tt.Ult(idx, x.Len), "index out of range")
		return &PtrVal{Obj: x.Obj, Off: ex.elemOff(x, idx), Elem: x.Elem}
	case *PtrVal:
		at := under(i.X.Type().(*types.Pointer).Elem()).(*types.Array)
		if x.Obj == nil {
			ex.check(ex.tt.False, "nil pointer dereference (array index)")
		}
		ex.check(ex.tt.Ult(idx, ex.c64(uint64(at.Len()))), "index out of range")
		k := ex.lc.leafCount(at.Elem())
		off := idx
		if k != 1 {
			off = ex.tt.BvMul(idx, ex.c64(uint64(k)))
		}
		return &PtrVal{Obj: x.Obj, Off: ex.tt.BvAdd(x.Off, off), Elem: at.Elem()}
	}
	ex.unsupported("indexaddr on %s", describe(ex.get(fr, i.X)))
	return nil
}

func (ex *Exec) indexVal(fr *frame, i *ssa.Index) Value {
	idx := ex.sext64(ex.get(fr, i.Index), i.Index.Type())
	switch x := ex.get(fr, i.X).(type) {
	case *StructVal:
		at := under(i.X.Type()).(*types.Array)
		ex.check(ex.tt.Ult(idx, ex.c64(uint64(at.Len()))), "index out of range")
		k := ex.lc.leafCount(at.Elem())
		c := int(ex.concretize(idx, "array value index", 64))
		return ex.pack(at.Elem(), append([]Value(nil), x.Leaves[c*k:(c+1)*k]...))
	case *StrVal:
		ex.check(ex.tt.Ult(idx, ex.c64(uint64(len(x.S)))), "string index out of range")
		c := int(ex.concretize(idx, "string index", 64))
		return ex.tt.Const(8, uint64(x.S[c]))
	}
	ex.unsupported("index on %s", describe(ex.get(fr, i.X)))
	return nil
}

func (ex *Exec) sliceOp(fr *frame, i *ssa.Slice) Value {
	opt := func(v ssa.Value) *Term {
		if v == nil {
			return nil
		}
		return ex.sext64(ex.get(fr, v), v.Type())
	}
	lo, hi, mx := opt(i.Low), opt(i.High), opt(i.Max)
	if lo == nil {
		lo = ex.c64(0)
	}
	switch x := ex.get(fr, i.X).(type) {
	case *SliceVal:
		if hi == nil {
			hi = x.Len
		}
		capv := x.Cap
		if mx == nil {
			mx = capv
		} else {
			ex.check(ex.tt.Ule(mx, capv), "slice bounds out of range (max > cap)")
		}
		if i.High == nil && i.Max == nil {
			// s[lo:]: hi = len
			ex.check(ex.tt.Ule(lo, hi), "slice bounds out of range (low > len)")
		} else {
			ex.check(ex.tt.Ule(hi, mx), "slice bounds out of range (high > cap)")
			ex.check(ex.tt.Ule(lo, hi), "slice bounds out of range (low > high)")
		}
		if x.Obj == nil {
			return ex.nilSlice(x.Elem)
		}
		return &SliceVal{Obj: x.Obj, Base: x.Base, Off: ex.tt.BvAdd(x.Off, lo), Len: ex.tt.BvSub(hi, lo), Cap: ex.tt.BvSub(mx, lo), Elem: x.Elem, K: x.K}
	case *PtrVal:
		at := under(i.X.Type().(*types.Pointer).Elem()).(*types.Array)
		if x.Obj == nil {
			ex.check(ex.tt.False, "nil pointer dereference (slice of array)")
		}
		n := ex.c64(uint64(at.Len()))
		if hi == nil {
			hi = n
		}
		if mx == nil {
			mx = n
		}
		ex.check(ex.tt.Ule(mx, n), "slice bounds out of range")
		ex.check(ex.tt.Ule(hi, mx), "slice bounds out of range")
		ex.check(ex.tt.Ule(lo, hi), "slice bounds out of range")
		if !x.Off.IsConst() {
			ex.unsupported("slice of array at symbolic address")
		}
		k := ex.lc.leafCount(at.Elem())
		return &SliceVal{Obj: x.Obj, Base: int(x.Off.Val), Off: lo, Len: ex.tt.BvSub(hi, lo), Cap: ex.tt.BvSub(mx, lo), Elem: at.Elem(), K: k}
	case *StrVal:
		n := ex.c64(uint64(len(x.S)))
		if hi == nil {
			hi = n
		}
		ex.check(ex.tt.Ule(hi, n), "string slice out of range")
		ex.check(ex.tt.Ule(lo, hi), "string slice out of range")
		l := ex.concretize(lo, "string slice", 64)
		h := ex.concretize(hi, "string slice", 64)
		return &StrVal{S: x.S[l:h]}
	}
	ex.unsupported("slice of %s", describe(ex.get(fr, i.X)))
	return nil
}

func (ex *Exec) unop(fr *frame, i *ssa.UnOp) Value {
	x := ex.get(fr, i.X)
	switch i.Op {
	case token.MUL:
		p, ok := x.(*PtrVal)
		if !ok {
			ex.unsupported("deref of non-pointer %s", describe(x))
		}
		return ex.load(p, i.Type())
	case token.NOT:
		return ex.tt.Not(ex.term(x, "!"))
	case token.SUB:
		if fw := floatWidth(i.X.Type()); fw > 0 {
			// IEEE negation flips the sign bit
			return ex.tt.BvXor(ex.term(x, "neg"), ex.tt.Const(fw, uint64(1)<<uint(fw-1)))
		}
		return ex.tt.BvNeg(ex.term(x, "neg"))
	case token.XOR:
		return ex.tt.BvNot(ex.term(x, "^"))
	}
	ex.unsupported("unary op %s", i.Op)
	return nil
}

func (ex *Exec) convert(v Value, from, to types.Type) Value {
	fw, tw := intWidth(from), intWidth(to)
	if ff, tf := floatWidth(from), floatWidth(to); ff > 0 || tf > 0 {
		x := ex.term(v, "convert")
		switch {
		case ff > 0 && tf > 0:
			if ff == tf {
				return x
			}
			return ex.tt.FP(fpToFP, tf, x)
		case tf > 0 && fw > 0:
			if isSigned(from) {
				return ex.tt.FP(fpFromS, tf, x)
			}
			return ex.tt.FP(fpFromU, tf, x)
		case ff > 0 && tw >= 32 && isSigned(to):
			return ex.tt.FP(fpToS, tw, x)
		}
		ex.unsupported("conversion %s -> %s (only float to int32/int64/int is modelled)", from, to)
	}
	if fw > 0 && tw > 0 {
		x := ex.term(v, "convert")
		if tw <= fw {
			return ex.tt.Extract(x, tw-1, 0)
		}
		if isSigned(from) {
			return ex.tt.Sext(x, tw)
		}
		return ex.tt.Zext(x, tw)
	}
	// []byte <-> string on concrete data
	if s, ok := v.(*StrVal); ok {
		if st, ok := under(to).(*types.Slice); ok {
			o := ex.newObject("string-bytes", st.Elem(), len(s.S))
			for k := 0; k < len(s.S); k++ {
				o.Cells[k] = ex.tt.Const(8, uint64(s.S[k]))
			}
			n := ex.c64(uint64(len(s.S)))
			return &SliceVal{Obj: o, Off: ex.c64(0), Len: n, Cap: n, Elem: st.Elem(), K: 1}
		}
		return s
	}
	if sl, ok := v.(*SliceVal); ok {
		if b, ok := under(to).(*types.Basic); ok && b.Info()&types.IsString != 0 {
			n := ex.concLen(sl.Len, "string conversion length")
			bs := make([]byte, n)
			if n > 0 {
				for k, e := range ex.sliceReadElems(sl, n) {
					t := e[0].(*Term)
					if !t.IsConst() {
						return &OpaqueVal{What: "string of symbolic bytes"}
					}
					bs[k] = byte(t.Val)
				}
			}
			return &StrVal{S: string(bs)}
		}
	}
	if _, ok := v.(*PtrVal); ok {
		return v
	}
	if _, ok := v.(*OpaqueVal); ok {
		return v
	}
	ex.unsupported("conversion %s -> %s", from, to)
	return nil
}

func (ex *Exec) valueEq(a, b Value) *Term {
	switch x := a.(type) {
	case *Term:
		y, ok := b.(*Term)
		if !ok {
			ex.unsupported("comparison of scalar with %s", describe(b))
		}
		return ex.tt.Eq(x, y)
	case *PtrVal:
		y, ok := b.(*PtrVal)
		if !ok {
			ex.unsupported("comparison of pointer with %s", describe(b))
		}
		if x.Obj != y.Obj {
			return ex.tt.False
		}
		if x.Obj == nil {
			return ex.tt.True
		}
		return ex.tt.Eq(x.Off, y.Off)
	case *SliceVal:
		y, ok := b.(*SliceVal)
		if !ok || (x.Obj != nil && y.Obj != nil) {
			ex.unsupported("slice comparison with non-nil")
		}
		return ex.tt.Bool(x.Obj == nil && y.Obj == nil)
	case *FuncVal:
		y, ok := b.(*FuncVal)
		if !ok || (x.Fn != nil && y.Fn != nil) {
			ex.unsupported("func comparison with non-nil")
		}
		return ex.tt.Bool(x.Fn == nil && y.Fn == nil)
	case *StrVal:
		y, ok := b.(*StrVal)
		if !ok {
			ex.unsupported("string comparison with %s", describe(b))
		}
		return ex.tt.Bool(x.S == y.S)
	case *IfaceVal:
		y, ok := b.(*IfaceVal)
		if !ok {
			ex.unsupported("interface comparison with %s", describe(b))
		}
		if x.Typ == nil || y.Typ == nil {
			return ex.tt.Bool(x.Typ == nil && y.Typ == nil)
		}
		if !types.Identical(x.Typ, y.Typ) {
			return ex.tt.False
		}
		return ex.valueEq(x.Val, y.Val)
	case *OpaqueVal:
		return ex.tt.Bool(a == b)
	case *MapVal:
		y, ok := b.(*MapVal)
		if !ok || (x.M != nil && y.M != nil) {
			ex.unsupported("map comparison with non-nil")
		}
		return ex.tt.Bool(x.M == nil && y.M == nil)
	case *StructVal:
		y, ok := b.(*StructVal)
		if !ok || len(x.Leaves) != len(y.Leaves) {
			ex.unsupported("struct comparison shape")
		}
		r := ex.tt.True
		for k := range x.Leaves {
			r = ex.tt.And(r, ex.valueEq(x.Leaves[k], y.Leaves[k]))
		}
		return r
	}
	ex.unsupported("comparison of %s", describe(a))
	return nil
}

func (ex *Exec) binop(op token.Token, a, b Value, ta, tb types.Type) Value {
	if fw := floatWidth(ta); fw > 0 && (op == token.EQL || op == token.NEQ) {
		eq := ex.tt.FP(fpEq, 0, ex.term(a, "binop lhs"), ex.term(b, "binop rhs"))
		if op == token.NEQ {
			return ex.tt.Not(eq)
		}
		return eq
	}
	switch op {
	case token.EQL:
		return ex.valueEq(a, b)
	case token.NEQ:
		return ex.tt.Not(ex.valueEq(a, b))
	}
	if sa, ok := a.(*StrVal); ok {
		sb, ok := b.(*StrVal)
		if !ok {
			if _, op := b.(*OpaqueVal); op {
				return b
			}
			ex.unsupported("string op with %s", describe(b))
		}
		switch op {
		case token.ADD:
			return &StrVal{S: sa.S + sb.S}
		case token.LSS:
			return ex.tt.Bool(sa.S < sb.S)
		}
		ex.unsupported("string op %s", op)
	}
	if _, ok := a.(*OpaqueVal); ok {
		return a
	}
	x := ex.term(a, "binop lhs")
	y := ex.term(b, "binop rhs")
	tt := ex.tt
	signed := isSigned(ta)
	if fw := floatWidth(ta); fw > 0 {
		switch op {
		case token.ADD:
			return tt.FP(fpAdd, fw, x, y)
		case token.SUB:
			return tt.FP(fpSub, fw, x, y)
		case token.MUL:
			return tt.FP(fpMul, fw, x, y)
		case token.QUO:
			return tt.FP(fpDiv, fw, x, y)
		case token.LSS:
			return tt.FP(fpLt, 0, x, y)
		case token.LEQ:
			return tt.FP(fpLe, 0, x, y)
		case token.GTR:
			return tt.FP(fpLt, 0, y, x)
		case token.GEQ:
			return tt.FP(fpLe, 0, y, x)
		}
		ex.unsupported("float binop %s", op)
	}
	switch op {
	case token.SHL, token.SHR:
		// Go: shift count is unsigned (or non-negative); counts >= width give 0 / sign fill
		var over *Term
		if y.W > x.W {
			over = tt.Not(tt.Ult(y, tt.Const(y.W, uint64(x.W))))
			y = tt.Extract(y, x.W-1, 0)
		} else {
			y = tt.Zext(y, x.W)
		}
		var r, sat *Term
		if op == token.SHL {
			r, sat = tt.BvShl(x, y), tt.Const(x.W, 0)
		} else if signed {
			r, sat = tt.BvAshr(x, y), tt.BvAshr(x, tt.Const(x.W, uint64(x.W-1)))
		} else {
			r, sat = tt.BvLshr(x, y), tt.Const(x.W, 0)
		}
		if over != nil {
			r = tt.Ite(over, sat, r)
		}
		return r
	}
	if x.W != y.W {
		ex.unsupported("binop %s width mismatch %d/%d", op, x.W, y.W)
	}
	if x.W == 0 {
		switch op {
		case token.AND, token.LAND:
			return tt.And(x, y)
		case token.OR, token.LOR:
			return tt.Or(x, y)
		}
		ex.unsupported("bool binop %s", op)
	}
	switch op {
	case token.ADD:
		return tt.BvAdd(x, y)
	case token.SUB:
		return tt.BvSub(x, y)
	case token.MUL:
		return tt.BvMul(x, y)
	case token.QUO:
		ex.check(tt.Not(tt.Eq(y, tt.Const(y.W, 0))), "integer divide by zero")
		if signed {
			return tt.BvSdiv(x, y)
		}
		return tt.BvUdiv(x, y)
	case token.REM:
		ex.check(tt.Not(tt.Eq(y, tt.Const(y.W, 0))), "integer divide by zero")
		if signed {
			return tt.BvSrem(x, y)
		}
		return tt.BvUrem(x, y)
	case token.AND:
		return tt.BvAnd(x, y)
	case token.OR:
		return tt.BvOr(x, y)
	case token.XOR:
		return tt.BvXor(x, y)
	case token.AND_NOT:
		return tt.BvAnd(x, tt.BvNot(y))
	case token.LSS:
		if signed {
			return tt.Slt(x, y)
		}
		return tt.Ult(x, y)
	case token.LEQ:
		if signed {
			return tt.Sle(x, y)
		}
		return tt.Ule(x, y)
	case token.GTR:
		if signed {
			return tt.Slt(y, x)
		}
		return tt.Ult(y, x)
	case token.GEQ:
		if signed {
			return tt.Sle(y, x)
		}
		return tt.Ule(y, x)
	}
	ex.unsupported("binop %s", op)
	return nil
}

// ---------- builtins ----------

func (ex *Exec) builtin(fr *frame, b *ssa.Builtin, c *ssa.CallCommon, args []Value) Value {
	switch b.Name() {
	case "len":
		switch x := args[0].(type) {
		case *SliceVal:
			return x.Len
		case *StrVal:
			return ex.c64(uint64(len(x.S)))
		case *StructVal:
			return ex.c64(uint64(under(c.Args[0].Type()).(*types.Array).Len()))
		case *MapVal:
			if x.M == nil {
				return ex.c64(0)
			}
			return ex.c64(uint64(len(x.M.Keys)))
		}
	case "delete":
		m := ex.mapOf(args[0])
		if m.M != nil {
			if at := ex.mapFind(m.M, args[1]); at >= 0 {
				m.M.Keys = append(m.M.Keys[:at:at], m.M.Keys[at+1:]...)
				m.M.Vals = append(m.M.Vals[:at:at], m.M.Vals[at+1:]...)
			}
		}
		return nil
	case "cap":
		if x, ok := args[0].(*SliceVal); ok {
			return x.Cap
		}
	case "copy":
		return ex.builtinCopy(args[0], args[1])
	case "append":
		return ex.builtinAppend(args[0], args[1], c.Args[0].Type())
	case "min", "max":
		r := ex.term(args[0], b.Name())
		signed := isSigned(c.Args[0].Type())
		for _, a := range args[1:] {
			y := ex.term(a, b.Name())
			var lt *Term
			if signed {
				lt = ex.tt.Slt(y, r)
			} else {
				lt = ex.tt.Ult(y, r)
			}
			if b.Name() == "max" {
				lt = ex.tt.Not(ex.tt.Or(lt, ex.tt.Eq(y, r)))
				// y > r
			}
			r = ex.tt.Ite(lt, y, r)
		}
		return r
	case "ssa:wrapnilchk":
		if p, ok := args[0].(*PtrVal); ok && p.Obj == nil {
			ex.check(ex.tt.False, "nil pointer dereference (method value)")
		}
		return args[0]
	case "print", "println":
		return nil
	}
	ex.unsupported("builtin %s on %s", b.Name(), describe(args[0]))
	return nil
}

func (ex *Exec) builtinCopy(dst, src Value) Value {
	d, ok := dst.(*SliceVal)
	if !ok {
		ex.unsupported("copy to %s", describe(dst))
	}
	var srcLen *Term
	var srcSl *SliceVal
	var srcStr *StrVal
	switch s := src.(type) {
	case *SliceVal:
		srcLen, srcSl = s.Len, s
	case *StrVal:
		srcLen, srcStr = ex.c64(uint64(len(s.S))), s
	default:
		ex.unsupported("copy from %s", describe(src))
	}
	nT := ex.tt.Ite(ex.tt.Ult(srcLen, d.Len), srcLen, d.Len)
	n := ex.concLen(nT, "copy length")
	if n == 0 {
		return ex.c64(0)
	}
	var elems [][]Value
	if srcSl != nil {
		elems = ex.sliceReadElems(srcSl, n)
	} else {
		for k := 0; k < n; k++ {
			elems = append(elems, []Value{ex.tt.Const(8, uint64(srcStr.S[k]))})
		}
	}
	for k := 0; k < n; k++ {
		ex.sliceWriteElem(d, k, elems[k])
	}
	return ex.c64(uint64(n))
}

func (ex *Exec) builtinAppend(dst, src Value, dt types.Type) Value {
	d, ok := dst.(*SliceVal)
	if !ok {
		ex.unsupported("append to %s", describe(dst))
	}
	var elems [][]Value
	switch s := src.(type) {
	case *SliceVal:
		n := ex.concLen(s.Len, "append source length")
		if n > 0 {
			elems = ex.sliceReadElems(s, n)
		}
	case *StrVal:
		for k := 0; k < len(s.S); k++ {
			elems = append(elems, []Value{ex.tt.Const(8, uint64(s.S[k]))})
		}
	default:
		ex.unsupported("append from %s", describe(src))
	}
	if len(elems) == 0 {
		return d
	}
	n := uint64(len(elems))
	total := ex.tt.BvAdd(d.Len, ex.c64(n))
	if d.Obj != nil && ex.branch(ex.tt.Ule(total, d.Cap)) {
		// in place
		base := &SliceVal{Obj: d.Obj, Base: d.Base, Off: ex.tt.BvAdd(d.Off, d.Len), Len: ex.c64(n), Cap: ex.c64(n), Elem: d.Elem, K: d.K}
		for k := range elems {
			ex.sliceWriteElem(base, k, elems[k])
		}
		return &SliceVal{Obj: d.Obj, Base: d.Base, Off: d.Off, Len: total, Cap: d.Cap, Elem: d.Elem, K: d.K}
	}
	// reallocate to exactly the needed capacity (modelling assumption M1)
	oldN := ex.concLen(d.Len, "append destination length")
	var old [][]Value
	if oldN > 0 {
		old = ex.sliceReadElems(d, oldN)
	}
	newN := oldN + len(elems)
	if newN > ex.cfg.MaxAlloc {
		ex.abort(abortUnwind, "append: allocation of %d elements exceeds the bound", newN)
	}
	o := ex.newObject("append", d.Elem, newN)
	ns := &SliceVal{Obj: o, Off: ex.c64(0), Len: ex.c64(uint64(newN)), Cap: ex.c64(uint64(newN)), Elem: d.Elem, K: o.K}
	for k := range old {
		ex.sliceWriteElem(ns, k, old[k])
	}
	for k := range elems {
		ex.sliceWriteElem(ns, oldN+k, elems[k])
	}
	return ns
}
