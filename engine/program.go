package main

// Loading /repo (current working tree) plus the overlay-injected harnesses and
// lowering everything to SSA. Nothing is cached between runs.

import (
	"fmt"
	"go/ast"
	"go/types"
	"os"
	"path/filepath"
	"sort"
	"strings"
	"sync"

	"golang.org/x/tools/go/packages"
	"golang.org/x/tools/go/ssa"
	"golang.org/x/tools/go/ssa/ssautil"
)

// repoDir is /repo; VERIF_REPO points the engine at a scratch copy when a seeded
// change is evaluated without touching /repo (never used by registered commands).
var repoDir = func() string {
	if d := os.Getenv("VERIF_REPO"); d != "" {
		return d
	}
	return "/repo"
}()

const modPath = "github.com/pion/rtp"

type KnownFinding struct {
	ID       string   `json:"id"`
	Property string   `json:"property"`
	Status   string   `json:"status"` // known | fixed
	Commit   string   `json:"commit,omitempty"`
	What     string   `json:"what"`
	Harness  string   `json:"harness,omitempty"`
	Asserts  []string `json:"asserts,omitempty"` // assertion ids (or "panic:<substr>") that the region excuses
	Region   string   `json:"region,omitempty"`  // human description of the region predicate (the predicate itself is in the harness)
}

type Program struct {
	prog          *ssa.Program
	pkgs          map[string]*ssa.Package // by import path
	harnessPkgs   map[*ssa.Package]bool
	initPkgs      map[*ssa.Package]bool
	initOrder     []*ssa.Package
	errorType     types.Type
	opaqueErrType types.Type
	stubMu        sync.RWMutex
	stubCache     map[*ssa.Function]stubFn
	known         map[string]*KnownFinding
	overlayFiles  map[string]string // virtual path -> real path (harness sources)
	harnessDirs   []string          // relative dirs that carry harness files
	loadSeconds   float64
}

// harnessOverlay maps every file under /verif/harness/<rel>/ to
// /repo/<rel>/zz_verif_<name>, and adds the runtime for the given mode.
// harnessFilter, when non-empty, limits the injected harness sources to the
// listed files (paths relative to /verif/harness). A check loads only the files
// it needs, so a change to pion/rtp that stops some other property's harness
// from compiling cannot take this check down with it.
var harnessFilter map[string]bool

func harnessOverlay(verifDir, mode string) (virt map[string]string, dirs []string, err error) {
	virt = map[string]string{}
	root := filepath.Join(verifDir, "harness")
	seen := map[string]bool{}
	err = filepath.Walk(root, func(path string, info os.FileInfo, e error) error {
		if e != nil {
			return e
		}
		if info.IsDir() || !strings.HasSuffix(path, ".go") {
			return nil
		}
		rel, _ := filepath.Rel(root, filepath.Dir(path))
		if rel == "_rt" || strings.HasPrefix(rel, "_") {
			return nil
		}
		if len(harnessFilter) > 0 {
			full, _ := filepath.Rel(root, path)
			if !harnessFilter[full] {
				return nil
			}
		}
		rel = strings.TrimPrefix(rel, "root")
		rel = strings.TrimPrefix(rel, "/")
		v := filepath.Join(repoDir, rel, "zz_verif_"+filepath.Base(path))
		virt[v] = path
		if !seen[rel] {
			seen[rel] = true
			dirs = append(dirs, rel)
		}
		return nil
	})
	sort.Strings(dirs)
	return
}

func pkgNameOfDir(dir string) (string, error) {
	ents, err := os.ReadDir(dir)
	if err != nil {
		return "", err
	}
	for _, e := range ents {
		n := e.Name()
		if !strings.HasSuffix(n, ".go") || strings.HasSuffix(n, "_test.go") {
			continue
		}
		b, err := os.ReadFile(filepath.Join(dir, n))
		if err != nil {
			continue
		}
		for _, line := range strings.Split(string(b), "\n") {
			line = strings.TrimSpace(line)
			if strings.HasPrefix(line, "package ") {
				return strings.Fields(line)[1], nil
			}
		}
	}
	return "", fmt.Errorf("no package clause found in %s", dir)
}

// runtimeFor renders the runtime template for one package.
func runtimeFor(verifDir, mode, pkgName string) ([]byte, error) {
	b, err := os.ReadFile(filepath.Join(verifDir, "harness", "_rt", "rt_"+mode+".go.tmpl"))
	if err != nil {
		return nil, err
	}
	return []byte(strings.ReplaceAll(string(b), "PKGNAME", pkgName)), nil
}

func LoadProgram(verifDir string) (*Program, error) {
	virt, dirs, err := harnessOverlay(verifDir, "sym")
	if err != nil {
		return nil, err
	}
	overlay := map[string][]byte{}
	for v, real := range virt {
		b, err := os.ReadFile(real)
		if err != nil {
			return nil, err
		}
		overlay[v] = b
	}
	for _, d := range dirs {
		pn, err := pkgNameOfDir(filepath.Join(repoDir, d))
		if err != nil {
			return nil, err
		}
		rt, err := runtimeFor(verifDir, "sym", pn)
		if err != nil {
			return nil, err
		}
		overlay[filepath.Join(repoDir, d, "zz_verif_rt.go")] = rt
	}
	cfg := &packages.Config{
		Mode:    packages.LoadAllSyntax,
		Dir:     repoDir,
		Overlay: overlay,
		Env:     append(os.Environ(), "GOFLAGS=-mod=mod", "GOPROXY=off", "GOSUMDB=off", "GOTOOLCHAIN=local", "CGO_ENABLED=0"),
		Tests:   false,
	}
	initial, err := packages.Load(cfg, "./...")
	if err != nil {
		return nil, err
	}
	var errs []string
	packages.Visit(initial, nil, func(p *packages.Package) {
		for _, e := range p.Errors {
			errs = append(errs, e.Error())
		}
	})
	if len(errs) > 0 {
		return nil, fmt.Errorf("package load errors (harness or repo does not type-check):\n  %s", strings.Join(errs, "\n  "))
	}
	prog, _ := ssautil.AllPackages(initial, ssa.BuilderMode(0))
	prog.Build()

	p := &Program{prog: prog, pkgs: map[string]*ssa.Package{}, harnessPkgs: map[*ssa.Package]bool{},
		initPkgs: map[*ssa.Package]bool{}, stubCache: map[*ssa.Function]stubFn{}, known: map[string]*KnownFinding{},
		overlayFiles: virt, harnessDirs: dirs}
	for _, sp := range prog.AllPackages() {
		p.pkgs[sp.Pkg.Path()] = sp
	}
	p.errorType = types.Universe.Lookup("error").Type()
	p.opaqueErrType = types.NewNamed(types.NewTypeName(0, nil, "verifOpaqueError", nil), types.NewStruct(nil, nil), nil)
	// init order: pion/rtp packages in dependency order
	var order []*ssa.Package
	seen := map[string]bool{}
	var visit func(tp *types.Package)
	visit = func(tp *types.Package) {
		if seen[tp.Path()] {
			return
		}
		seen[tp.Path()] = true
		for _, imp := range tp.Imports() {
			visit(imp)
		}
		if strings.HasPrefix(tp.Path(), modPath) {
			if sp := p.pkgs[tp.Path()]; sp != nil {
				order = append(order, sp)
			}
		}
	}
	for _, ip := range initial {
		visit(ip.Types)
	}
	p.initOrder = order
	for _, sp := range order {
		p.initPkgs[sp] = true
	}
	for _, d := range dirs {
		path := modPath
		if d != "" {
			path += "/" + d
		}
		if sp := p.pkgs[path]; sp != nil {
			p.harnessPkgs[sp] = true
		} else {
			return nil, fmt.Errorf("harness dir %q has no package %s", d, path)
		}
	}
	return p, nil
}

// knownFor returns the id of the known finding (among the regions active on
// the path) that excuses this failure, or "".
func (p *Program) knownFor(active []string, kind, id string) string {
	for _, a := range active {
		kf := p.known[a]
		if kf == nil || kf.Status != "known" {
			continue
		}
		for _, as := range kf.Asserts {
			if kind == "assert" && as == id {
				return a
			}
			if kind == "panic" && strings.HasPrefix(as, "panic:") && strings.Contains(id, strings.TrimPrefix(as, "panic:")) {
				return a
			}
		}
	}
	return ""
}

func (p *Program) findHarness(pkgPath, fn string) (*ssa.Function, error) {
	sp := p.pkgs[pkgPath]
	if sp == nil {
		return nil, fmt.Errorf("package %s not loaded", pkgPath)
	}
	f := sp.Func(fn)
	if f == nil {
		return nil, fmt.Errorf("harness %s not found in %s", fn, pkgPath)
	}
	return f, nil
}

// harnessFuncNames lists the exported Verif* functions of every harness file,
// per relative dir, by parsing the sources (used to generate the replay test).
func (p *Program) harnessFuncNames() map[string][]string {
	out := map[string][]string{}
	for _, sp := range p.prog.AllPackages() {
		if !p.harnessPkgs[sp] {
			continue
		}
		rel := strings.TrimPrefix(strings.TrimPrefix(sp.Pkg.Path(), modPath), "/")
		for name, m := range sp.Members {
			if f, ok := m.(*ssa.Function); ok && strings.HasPrefix(name, "Verif") && f.Signature.Params().Len() == 0 && f.Signature.Results().Len() == 0 {
				out[rel] = append(out[rel], name)
			}
		}
		sort.Strings(out[rel])
	}
	return out
}

// staticCovers collects the constant ids of verifCover calls reachable from fn
// through harness-defined functions.
func (p *Program) staticCovers(fn *ssa.Function) []string {
	seen := map[*ssa.Function]bool{}
	ids := map[string]bool{}
	var walk func(f *ssa.Function)
	walk = func(f *ssa.Function) {
		if seen[f] || f.Blocks == nil {
			return
		}
		seen[f] = true
		for _, anon := range f.AnonFuncs {
			walk(anon)
		}
		for _, b := range f.Blocks {
			for _, in := range b.Instrs {
				call, ok := in.(ssa.CallInstruction)
				if !ok {
					continue
				}
				callee := call.Common().StaticCallee()
				if callee == nil {
					continue
				}
				if callee.Name() == "verifCover" && len(call.Common().Args) == 1 {
					if c, ok := call.Common().Args[0].(*ssa.Const); ok {
						ids[strings.Trim(c.Value.ExactString(), "\"")] = true
					}
					continue
				}
				if callee.Pkg != nil && p.harnessPkgs[callee.Pkg] && p.isHarnessFunc(callee) {
					walk(callee)
				}
			}
		}
	}
	walk(fn)
	var out []string
	for id := range ids {
		out = append(out, id)
	}
	sort.Strings(out)
	return out
}

func (p *Program) isHarnessFunc(f *ssa.Function) bool {
	if f.Syntax() == nil {
		return false
	}
	pos := p.prog.Fset.Position(f.Syntax().Pos())
	return strings.HasPrefix(filepath.Base(pos.Filename), "zz_verif_")
}

// functionsEncoded lists library functions (non-harness) a run executed.
func relFuncName(f *ssa.Function) string { return f.String() }

var _ = ast.NewIdent
