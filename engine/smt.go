package main

// Solver processes. One long-lived process per worker; every query is
// self-contained (z3: "(reset)", cvc5: push/pop) so verdicts do not depend on
// solver history. Anything other than a clean sat/unsat is Unknown.

import (
	"bufio"
	"fmt"
	"io"
	"os"
	"os/exec"
	"regexp"
	"strconv"
	"strings"
	"sync/atomic"
	"time"
)

type SatResult int

const (
	Unsat SatResult = iota
	Sat
	Unknown
)

func (r SatResult) String() string { return [...]string{"unsat", "sat", "unknown"}[r] }

type SolverKind string

const (
	SolverZ3      SolverKind = "z3"
	SolverZ3New   SolverKind = "z3-new"
	SolverCVC5    SolverKind = "cvc5"
	SolverCVC5Int SolverKind = "cvc5-intblast"
	SolverCVC5Sum SolverKind = "cvc5-intblast-sum"
)

type Solver struct {
	kind      SolverKind
	cmd       *exec.Cmd
	in        io.WriteCloser
	out       *bufio.Reader
	timeoutMs int
	lines     chan string
	dead      bool
	nq        int

	Queries      int
	Retries      int
	TimeNs       int64
	popPending   bool
	oneShotOnly  bool
	killed       int32
	resetPending bool
	LogFile      *os.File
}

var solverSpawned int64

func solverArgv(kind SolverKind, timeoutMs int) []string {
	switch kind {
	case SolverZ3:
		return []string{"/usr/bin/z3", "-in"}
	case SolverZ3New:
		return []string{"z3-new", "-in"}
	case SolverCVC5:
		return []string{"cvc5", "--incremental", "--lang=smt2", "--produce-models", fmt.Sprintf("--tlimit-per=%d", timeoutMs)}
	case SolverCVC5Int:
		return []string{"cvc5", "--incremental", "--lang=smt2", "--produce-models", "--solve-bv-as-int=bv", fmt.Sprintf("--tlimit-per=%d", timeoutMs)}
	case SolverCVC5Sum:
		return []string{"cvc5", "--incremental", "--lang=smt2", "--produce-models", "--solve-bv-as-int=sum", fmt.Sprintf("--tlimit-per=%d", timeoutMs)}
	}
	panic("unknown solver kind " + string(kind))
}

func NewSolver(kind SolverKind, timeoutMs int) *Solver {
	s := &Solver{kind: kind, timeoutMs: timeoutMs}
	s.start()
	return s
}

func (s *Solver) start() {
	argv := solverArgv(s.kind, s.timeoutMs)
	s.cmd = exec.Command(argv[0], argv[1:]...)
	in, err := s.cmd.StdinPipe()
	if err != nil {
		panic(err)
	}
	out, err := s.cmd.StdoutPipe()
	if err != nil {
		panic(err)
	}
	s.cmd.Stderr = s.cmd.Stdout
	if err := s.cmd.Start(); err != nil {
		panic(fmt.Sprintf("cannot start solver %v: %v", argv, err))
	}
	atomic.AddInt64(&solverSpawned, 1)
	s.in = in
	s.out = bufio.NewReaderSize(out, 1<<20)
	s.lines = make(chan string, 1024)
	s.dead = false
	rd := s.out
	ch := s.lines
	go func() {
		for {
			line, err := rd.ReadString('\n')
			if line != "" {
				ch <- strings.TrimRight(line, "\r\n")
			}
			if err != nil {
				close(ch)
				return
			}
		}
	}()
	if s.isCVC5() {
		io.WriteString(s.in, "(set-logic ALL)\n")
	} else {
		fmt.Fprintf(s.in, "(set-option :produce-models true)\n(set-option :timeout %d)\n", s.timeoutMs)
	}
}

func (s *Solver) isCVC5() bool { return strings.HasPrefix(string(s.kind), "cvc5") }

// Kill aborts whatever the solver is doing; the next Check restarts it.
func (s *Solver) Kill() {
	atomic.StoreInt32(&s.killed, 1)
	if s.cmd != nil && s.cmd.Process != nil {
		s.cmd.Process.Kill()
	}
}

func (s *Solver) Close() {
	if s.cmd != nil && s.cmd.Process != nil {
		s.in.Close()
		s.cmd.Process.Kill()
		s.cmd.Wait()
		s.cmd = nil
	}
	s.dead = true
}

var valRe = regexp.MustCompile(`\(\s*(\|[^|]+\||[^\s()|]+)\s+(#x[0-9a-fA-F]+|#b[01]+|true|false)\s*\)`)

// Check runs one self-contained query. body = declarations, definitions and
// assertions; vars = variables whose values are wanted on sat.
func (s *Solver) Check(body string, vars []*Term) (SatResult, Model, string) {
	t0 := time.Now()
	defer func() { s.TimeNs += time.Since(t0).Nanoseconds(); s.Queries++ }()
	atomic.StoreInt32(&s.killed, 0)
	res, m, note := s.check1(body, vars, s.oneShotOnly)
	if res == Unknown && atomic.LoadInt32(&s.killed) == 0 && time.Since(t0) < 2*time.Second &&
		(strings.HasPrefix(note, "write failed") || note == "solver timeout/hang") {
		// the process was already gone (a portfolio loser killed just after it had answered the
		// previous query): that says nothing about this query; ask again on a fresh process
		s.Close()
		res, m, note = s.check1(body, vars, s.oneShotOnly)
	}
	if res == Unknown && !s.isCVC5() && !s.oneShotOnly && atomic.LoadInt32(&s.killed) == 0 {
		// z3's incremental core gave up: retry once as a fresh one-shot problem (tactic pipeline)
		s.Retries++
		res, m, note = s.check1(body, vars, true)
	}
	return res, m, note
}

func (s *Solver) check1(body string, vars []*Term, oneShot bool) (SatResult, Model, string) {
	if s.dead {
		s.start()
	}
	s.nq++
	if !s.isCVC5() && s.nq%400 == 0 {
		// bound whatever state the solver accumulates across push/pop scopes
		fmt.Fprintf(s.in, "(reset)\n(set-option :produce-models true)\n(set-option :timeout %d)\n", s.timeoutMs)
	}
	marker := fmt.Sprintf("<<done-%d>>", s.nq)
	var sb strings.Builder
	s.popPending = false
	s.resetPending = oneShot
	if oneShot {
		sb.WriteString("(reset)\n(set-option :produce-models true)\n")
		fmt.Fprintf(&sb, "(set-option :timeout %d)\n", s.timeoutMs)
	} else {
		sb.WriteString("(push 1)\n")
		s.popPending = true
	}
	sb.WriteString(body)
	sb.WriteString("(check-sat)\n")
	fmt.Fprintf(&sb, "(echo \"%s-cs\")\n", marker)
	q := sb.String()
	if s.LogFile != nil {
		fmt.Fprintf(s.LogFile, "; ---- query %d (%s)\n%s", s.nq, s.kind, q)
	}
	if _, err := io.WriteString(s.in, q); err != nil {
		s.Close()
		return Unknown, nil, "write failed: " + err.Error()
	}
	lines, ok := s.readUntil(marker+"-cs", time.Duration(s.timeoutMs)*time.Millisecond+10*time.Second)
	if !ok {
		s.Close()
		return Unknown, nil, "solver timeout/hang"
	}
	res := Unknown
	note := ""
	for _, l := range lines {
		switch {
		case l == "sat":
			res = Sat
		case l == "unsat":
			res = Unsat
		case l == "unknown" || strings.HasPrefix(l, "timeout"):
			res = Unknown
			note = l
		case strings.Contains(l, "(error") || strings.Contains(l, "rror:"):
			s.finish()
			return Unknown, nil, "solver error: " + l
		}
	}
	var m Model
	if res == Sat && len(vars) > 0 {
		var gv strings.Builder
		gv.WriteString("(get-value (")
		for _, v := range vars {
			gv.WriteString(varSym(v.Name))
			gv.WriteByte(' ')
		}
		gv.WriteString("))\n")
		fmt.Fprintf(&gv, "(echo \"%s-gv\")\n", marker)
		if s.LogFile != nil {
			fmt.Fprintf(s.LogFile, "%s", gv.String())
		}
		io.WriteString(s.in, gv.String())
		vl, ok := s.readUntil(marker+"-gv", 20*time.Second)
		if !ok {
			s.Close()
			return Unknown, nil, "solver hang in get-value"
		}
		txt := strings.Join(vl, " ")
		if strings.Contains(txt, "(error") {
			s.finish()
			return Unknown, nil, "solver error in get-value: " + txt
		}
		m = Model{}
		for _, mm := range valRe.FindAllStringSubmatch(txt, -1) {
			m[strings.Trim(mm[1], "|")] = parseLit(mm[2])
		}
		if len(m) != len(vars) {
			s.finish()
			return Unknown, nil, fmt.Sprintf("get-value returned %d of %d values: %.200s", len(m), len(vars), txt)
		}
	}
	s.finish()
	return res, m, note
}

func (s *Solver) finish() {
	if s.popPending && !s.dead {
		io.WriteString(s.in, "(pop 1)\n")
		if s.LogFile != nil {
			fmt.Fprintf(s.LogFile, "(pop 1)\n")
		}
	}
	if s.resetPending && !s.dead {
		// a one-shot query leaves its assertions at the base level: wipe them
		fmt.Fprintf(s.in, "(reset)\n(set-option :produce-models true)\n(set-option :timeout %d)\n", s.timeoutMs)
	}
	s.popPending = false
	s.resetPending = false
}

func parseLit(l string) uint64 {
	switch {
	case l == "true":
		return 1
	case l == "false":
		return 0
	case strings.HasPrefix(l, "#x"):
		v, _ := strconv.ParseUint(l[2:], 16, 64)
		return v
	case strings.HasPrefix(l, "#b"):
		v, _ := strconv.ParseUint(l[2:], 2, 64)
		return v
	}
	return 0
}

func (s *Solver) readUntil(marker string, d time.Duration) ([]string, bool) {
	var out []string
	timer := time.NewTimer(d)
	defer timer.Stop()
	for {
		select {
		case l, ok := <-s.lines:
			if !ok {
				return out, false
			}
			if strings.Trim(l, "\"") == marker {
				return out, true
			}
			out = append(out, l)
		case <-timer.C:
			return out, false
		}
	}
}
