package main

// Path exploration driver: a shared LIFO of decision prefixes, N workers each
// with its own term table, solver process and interpreter.

import (
	"fmt"
	"math/rand"
	"os"
	"runtime/debug"
	"sort"
	"strconv"
	"strings"
	"sync"
	"time"

	"golang.org/x/tools/go/ssa"
)

type RunConfig struct {
	Unwind        int
	MaxSteps      int
	MaxAlloc      int
	MaxConcretize int
	Bounds        map[string]int
	NoSlicing     bool
	Solver        SolverKind
	TimeoutMs     int
	Workers       int
	MaxPaths      int
	Seed          int64
	Debug         bool
	Deadline      time.Time
	CrossSolver   SolverKind
	CrossEvery    int
}

type PathSample struct {
	Harness string      `json:"harness"`
	Shape   string      `json:"shape"`
	Covers  []string    `json:"covers"`
	Tape    []TapeValue `json:"tape,omitempty"`
	PCSize  int         `json:"path_condition_conjuncts"`
}

type HarnessResult struct {
	Harness                         string
	Paths                           int // completed feasible paths
	DeadPaths                       int
	ViolPaths                       int
	Decisions                       int
	Queries                         int
	Unsat                           int
	SatQ                            int
	UnknownQ                        int
	ModelHits                       int
	SolverNs                        int64
	Steps                           int
	Violations                      map[string]*Violation // key kind:id -> first witness
	ViolCount                       map[string]int
	KnownHits                       map[string]*Violation // KF id -> first witness
	KnownCount                      map[string]int
	LooseKF                         map[string]int
	Covers                          map[string]int
	CoverTapes                      map[string]PathSample
	Asserts                         map[string]int
	Problems                        []string // unsupported / unknown / unwind: make the run inconclusive
	Samples                         []PathSample
	ValTapes                        []PathSample // sampled completed paths for translator validation
	Funcs                           map[string]bool
	Shapes                          map[string]int
	WallS                           float64
	StaticCovers                    []string
	Fallbacks                       int
	Cross, CrossAgree, CrossUnknown int
	problemSeen                     map[string]int
}

const valWant = 16

type workItem struct {
	prefix []uint64
}

type explorer struct {
	P            *Program
	cfg          *RunConfig
	fn           *ssa.Function
	mu           sync.Mutex
	cond         *sync.Cond
	stack        []workItem
	active       int
	res          *HarnessResult
	rng          *rand.Rand
	stopped      bool
	violDeadline time.Time
}

func Explore(P *Program, fn *ssa.Function, cfg *RunConfig) *HarnessResult {
	t0 := time.Now()
	e := &explorer{P: P, cfg: cfg, fn: fn, rng: rand.New(rand.NewSource(cfg.Seed))}
	e.cond = sync.NewCond(&e.mu)
	e.res = &HarnessResult{Harness: fn.Name(), Violations: map[string]*Violation{}, ViolCount: map[string]int{},
		KnownHits: map[string]*Violation{}, KnownCount: map[string]int{}, LooseKF: map[string]int{}, Covers: map[string]int{},
		CoverTapes: map[string]PathSample{}, Asserts: map[string]int{}, Funcs: map[string]bool{}, Shapes: map[string]int{}}
	e.res.StaticCovers = P.staticCovers(fn)
	e.stack = []workItem{{}}
	var wg sync.WaitGroup
	for w := 0; w < cfg.Workers; w++ {
		wg.Add(1)
		go func(id int) {
			defer wg.Done()
			e.worker(id)
		}(w)
	}
	wg.Wait()
	e.res.WallS = time.Since(t0).Seconds()
	return e.res
}

func (e *explorer) take() (workItem, bool) {
	e.mu.Lock()
	defer e.mu.Unlock()
	for {
		if e.stopped {
			return workItem{}, false
		}
		if !e.violDeadline.IsZero() && time.Now().After(e.violDeadline) {
			// a violation is already established: more exploration cannot change the verdict
			e.stopped = true
			e.cond.Broadcast()
			return workItem{}, false
		}
		if !e.cfg.Deadline.IsZero() && time.Now().After(e.cfg.Deadline) {
			e.stopped = true
			e.res.Problems = append(e.res.Problems, "wall-clock budget exhausted: exploration incomplete")
			e.cond.Broadcast()
			return workItem{}, false
		}
		if n := len(e.stack); n > 0 {
			it := e.stack[n-1]
			e.stack = e.stack[:n-1]
			e.active++
			return it, true
		}
		if e.active == 0 {
			e.cond.Broadcast()
			return workItem{}, false
		}
		e.cond.Wait()
	}
}

func (e *explorer) done(kids [][]uint64) {
	e.mu.Lock()
	// push in reverse so the smallest alternative is explored first
	for i := len(kids) - 1; i >= 0; i-- {
		e.stack = append(e.stack, workItem{kids[i]})
	}
	e.active--
	e.mu.Unlock()
	e.cond.Broadcast()
}

func (e *explorer) worker(id int) {
	cfgCopy := *e.cfg
	ex := &Exec{P: e.P, cfg: &cfgCopy, lc: newLayoutCache()}
	ex.tt = NewTermTable()
	// "a@5,b@120": a portfolio tried in order until one gives a verdict
	spec := string(e.cfg.Solver)
	if strings.Contains(spec, "|") {
		ex.race = true
		spec = strings.ReplaceAll(spec, "|", ",")
	}
	for i, part := range strings.Split(spec, ",") {
		kind, tmo := part, e.cfg.TimeoutMs
		if j := strings.IndexByte(part, '@'); j >= 0 {
			kind = part[:j]
			if n, err := strconv.Atoi(part[j+1:]); err == nil {
				tmo = n * 1000
			}
		}
		sv := NewSolver(SolverKind(kind), tmo)
		defer sv.Close()
		if i == 0 {
			ex.solver = sv
		} else {
			ex.fallbacks = append(ex.fallbacks, sv)
		}
	}
	if e.cfg.Debug && id == 0 {
		f, _ := os.Create(fmt.Sprintf("/verif/.work/queries-%s.smt2", e.fn.Name()))
		ex.solver.LogFile = f
	}
	if e.cfg.CrossSolver != "" {
		ex.cross = NewSolver(e.cfg.CrossSolver, e.cfg.TimeoutMs)
		ex.cross.oneShotOnly = true
		defer ex.cross.Close()
	}
	funcs := map[*ssa.Function]bool{}
	ex.cfg = &cfgCopy
	for {
		it, ok := e.take()
		if !ok {
			break
		}
		if ex.tt.nextID > 3_000_000 {
			ex.tt = NewTermTable()
		}
		out := ex.runPath(e.fn, it.prefix, funcs)
		e.merge(ex, out)
		e.done(out.kids)
	}
	e.mu.Lock()
	e.res.Queries += ex.nQueries
	e.res.Unsat += ex.nUnsat
	e.res.SatQ += ex.nSat
	e.res.UnknownQ += ex.nUnknown
	e.res.ModelHits += ex.nModelHits
	e.res.Decisions += ex.nBranchDecisions
	e.res.SolverNs += ex.solver.TimeNs
	for _, fb := range ex.fallbacks {
		e.res.SolverNs += fb.TimeNs
	}
	e.res.Fallbacks += ex.nFallbacks
	e.res.Cross += ex.nCross
	e.res.CrossAgree += ex.nCrossAgree
	e.res.CrossUnknown += ex.nCrossUnknown
	for f := range funcs {
		if !e.P.isHarnessFunc(f) {
			e.res.Funcs[f.String()] = true
		}
	}
	e.mu.Unlock()
}

type pathOutcome struct {
	kind      string // done | dead | violation | problem | stop
	msg       string
	kids      [][]uint64
	viol      []*Violation
	knownHits []*Violation
	loose     map[string]int
	covers    []string
	asserts   map[string]int
	shape     string
	steps     int
	tape      []TapeValue
	pcSize    int
}

func (ex *Exec) resetPath(prefix []uint64) {
	ex.pc = nil
	ex.prefix = prefix
	ex.pos = 0
	ex.decisions = make([]uint64, 0, len(prefix)+16)
	ex.globals = map[*ssa.Global]*Object{}
	ex.nextObj = 0
	ex.model = nil
	ex.tape = nil
	ex.varCount = map[string]int{}
	ex.stats = PathStats{}
	ex.known = nil
	ex.coversHit = nil
	ex.shape = nil
	ex.depth = 0
	ex.curFrame = nil
	ex.pendKids = nil
	ex.viol = nil
	ex.knownHits = nil
	ex.asserts = map[string]int{}
	ex.looseKF = map[string]int{}
	ex.threads = nil
	ex.varSubst = map[string]*Term{}
	ex.termSubst = map[int]*Term{}
	ex.rwMemo = nil
}

func (ex *Exec) runInits() {
	for _, sp := range ex.P.initOrder {
		if f := sp.Func("init"); f != nil {
			ex.callFunc(f, nil, nil)
		}
	}
}

func (ex *Exec) runPath(fn *ssa.Function, prefix []uint64, funcs map[*ssa.Function]bool) (out pathOutcome) {
	ex.resetPath(prefix)
	ex.harness = fn.Name()
	ex.funcsSeen = funcs
	defer func() {
		out.kids = ex.pendKids
		out.viol = ex.viol
		out.knownHits = ex.knownHits
		out.loose = ex.looseKF
		out.covers = ex.coversHit
		out.asserts = ex.asserts
		out.shape = strings.Join(ex.shape, ",")
		out.steps = ex.stats.Steps
		out.pcSize = len(ex.pc)
		if r := recover(); r != nil {
			pa, ok := r.(pathAbort)
			if !ok {
				out.kind = "problem"
				out.msg = fmt.Sprintf("engine panic: %v\n%s", r, debug.Stack())
				return
			}
			switch pa.kind {
			case abortDead:
				out.kind = "dead"
			case abortViolation:
				out.kind = "violation"
			case abortReturn:
				out.kind = "done"
			default:
				out.kind = "problem"
			}
			out.msg = pa.msg
			if out.kind == "problem" {
				out.msg += " [" + ex.where() + "] shape=" + out.shape
			}
		}
	}()
	ex.runInits()
	ex.callFunc(fn, nil, nil)
	if ex.replaying() {
		out.kind = "problem"
		out.msg = "internal: decision prefix not consumed (non-deterministic execution)"
		return
	}
	out.kind = "done"
	return
}

func (e *explorer) merge(ex *Exec, o pathOutcome) {
	// a completed path can donate a validation tape: needs a model of its pc
	var sample *PathSample
	need := false
	if o.kind == "done" {
		e.mu.Lock()
		for _, c := range o.covers {
			if _, ok := e.res.CoverTapes[c]; !ok {
				need = true
			}
		}
		if len(e.res.ValTapes) < valWant || e.rng.Intn(e.res.Paths+1) < valWant {
			need = true
		}
		e.mu.Unlock()
	}
	if need {
		func() {
			defer func() {
				if r := recover(); r != nil {
					sample = nil
				}
			}()
			m := ex.fullModel(ex.tt.True)
			sample = &PathSample{Harness: e.fn.Name(), Shape: o.shape, Covers: o.covers, Tape: ex.tapeValues(m), PCSize: o.pcSize}
		}()
	}
	e.mu.Lock()
	defer e.mu.Unlock()
	r := e.res
	r.Steps += o.steps
	switch o.kind {
	case "done":
		r.Paths++
		r.Shapes[o.shape]++
	case "dead":
		r.DeadPaths++
		if e.cfg.Debug {
			fmt.Printf("dead path: %s shape=%s decisions=%v\n", o.msg, o.shape, ex.decisions)
		}
	case "violation":
		r.ViolPaths++
	case "problem":
		key := o.msg
		if i := strings.Index(key, " shape="); i >= 0 {
			key = key[:i]
		}
		if r.problemSeen == nil {
			r.problemSeen = map[string]int{}
		}
		r.problemSeen[key]++
		if r.problemSeen[key] == 1 && len(r.Problems) < 20 {
			r.Problems = append(r.Problems, o.msg)
		}
	}
	for id, n := range o.asserts {
		r.Asserts[id] += n
	}
	if len(o.viol) > 0 && e.violDeadline.IsZero() {
		e.violDeadline = time.Now().Add(15 * time.Second)
	}
	for _, v := range o.viol {
		k := v.Kind + ":" + v.ID
		r.ViolCount[k]++
		if _, ok := r.Violations[k]; !ok {
			r.Violations[k] = v
		}
	}
	for _, v := range o.knownHits {
		k := v.Known[0]
		r.KnownCount[k]++
		if _, ok := r.KnownHits[k]; !ok {
			r.KnownHits[k] = v
		}
	}
	for k, n := range o.loose {
		r.LooseKF[k] += n
	}
	if o.kind == "done" || o.kind == "violation" {
		for _, c := range o.covers {
			r.Covers[c]++
		}
	}
	if sample != nil {
		for _, c := range o.covers {
			if _, ok := r.CoverTapes[c]; !ok {
				r.CoverTapes[c] = *sample
			}
		}
		if len(r.Samples) < 3 {
			r.Samples = append(r.Samples, *sample)
		}
		// reservoir sample for validation
		if len(r.ValTapes) < valWant {
			r.ValTapes = append(r.ValTapes, *sample)
		} else {
			r.ValTapes[e.rng.Intn(valWant)] = *sample
		}
	}
	if e.cfg.MaxPaths > 0 && r.Paths+r.DeadPaths+r.ViolPaths > e.cfg.MaxPaths && !e.stopped {
		e.stopped = true
		r.Problems = append(r.Problems, fmt.Sprintf("path budget %d exhausted: exploration incomplete", e.cfg.MaxPaths))
		e.cond.Broadcast()
	}
}

func sortedKeys[V any](m map[string]V) []string {
	ks := make([]string, 0, len(m))
	for k := range m {
		ks = append(ks, k)
	}
	sort.Strings(ks)
	return ks
}
