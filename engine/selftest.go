package main

// Self-test of the term layer: random expressions are built twice — through
// the simplifying constructors and as raw, unsimplified nodes — and an SMT
// solver must prove the two equivalent; the known-bits claims of every
// simplified node are proved as well. Run: symgo selftest [n] [seed]

import (
	"fmt"
	"math"
	"math/rand"
	"os"
	"strconv"
)

type rawBuilder struct{ tt *TermTable }

func (b rawBuilder) mk(op Op, w int, args ...*Term) *Term {
	// bypass simplification and known-bits folding: intern a node as-is
	t := &Term{Op: op, W: w, Args: args}
	k := "raw!" + b.tt.key(t)
	if e, ok := b.tt.tab[k]; ok {
		return e
	}
	b.tt.nextID++
	t.ID = b.tt.nextID
	b.tt.tab[k] = t
	return t
}

func selfTest(n int, seed int64) int {
	rng := rand.New(rand.NewSource(seed))
	tt := NewTermTable()
	rb := rawBuilder{tt}
	sv := NewSolver(SolverZ3New, 20000)
	defer sv.Close()
	vars := []*Term{tt.Var("a", 8), tt.Var("b", 8), tt.Var("c", 16), tt.Var("d", 16)}
	boolv := []*Term{tt.Var("p", 0), tt.Var("q", 0)}
	consts8 := []uint64{0, 1, 2, 3, 4, 7, 8, 15, 16, 0x7F, 0x80, 0xF0, 0xFF}
	var gen func(depth, w int) (simp, raw *Term)
	var genBool func(depth int) (simp, raw *Term)
	leaf := func(w int) (*Term, *Term) {
		if w == 0 {
			if rng.Intn(5) == 0 {
				c := tt.Bool(rng.Intn(2) == 0)
				return c, c
			}
			v := boolv[rng.Intn(2)]
			return v, v
		}
		if rng.Intn(3) == 0 {
			c := tt.Const(w, consts8[rng.Intn(len(consts8))]<<uint(rng.Intn(w-7)))
			return c, c
		}
		for {
			v := vars[rng.Intn(len(vars))]
			if v.W == w {
				return v, v
			}
			if v.W < w {
				return tt.Zext(v, w), rb.mk(OpZext, w, v)
			}
		}
	}
	gen = func(depth, w int) (*Term, *Term) {
		if depth == 0 {
			return leaf(w)
		}
		switch rng.Intn(17) {
		case 0:
			s, r := gen(depth-1, w)
			return tt.BvNot(s), rb.mk(OpBvNot, w, r)
		case 1:
			s, r := gen(depth-1, w)
			return tt.BvNeg(s), rb.mk(OpBvNeg, w, r)
		case 2, 3, 4, 5, 6, 7, 8, 9, 10, 11, 12:
			s1, r1 := gen(depth-1, w)
			s2, r2 := gen(depth-1, w)
			if rng.Intn(2) == 0 {
				// constant right operand: masks, shift counts, divisors
				ks := []uint64{0, 1, 2, 3, 4, 7, 8, 15, 16, 0x3F, 0x7F, 0x80, 0xF0, 0xFF, 0x100, 0xFF00, 0x7FFF, 0xFFFF}
				c := tt.Const(w, ks[rng.Intn(len(ks))])
				s2, r2 = c, c
			}
			ops := []struct {
				op Op
				f  func(a, b *Term) *Term
			}{{OpBvAnd, tt.BvAnd}, {OpBvOr, tt.BvOr}, {OpBvXor, tt.BvXor}, {OpBvAdd, tt.BvAdd}, {OpBvSub, tt.BvSub}, {OpBvMul, tt.BvMul},
				{OpBvUdiv, tt.BvUdiv}, {OpBvUrem, tt.BvUrem}, {OpBvShl, tt.BvShl}, {OpBvLshr, tt.BvLshr}, {OpBvAshr, tt.BvAshr}, {OpBvSdiv, tt.BvSdiv}, {OpBvSrem, tt.BvSrem}}
			o := ops[rng.Intn(len(ops))]
			return o.f(s1, s2), rb.mk(o.op, w, r1, r2)
		case 13:
			c, cr := genBool(depth - 1)
			s1, r1 := gen(depth-1, w)
			s2, r2 := gen(depth-1, w)
			return tt.Ite(c, s1, s2), rb.mk(OpIte, w, cr, r1, r2)
		case 14:
			if w == 16 {
				s, r := gen(depth-1, 8)
				if rng.Intn(2) == 0 {
					return tt.Zext(s, 16), rb.mk(OpZext, 16, r)
				}
				return tt.Sext(s, 16), rb.mk(OpSext, 16, r)
			}
			s, r := gen(depth-1, 16)
			lo := rng.Intn(9)
			x := rb.tt.intern(&Term{Op: OpExtract, W: 8, Args: []*Term{r}, Hi: lo + 7, Lo: lo})
			if r.IsConst() {
				x = tt.Extract(r, lo+7, lo)
			}
			return tt.Extract(s, lo+7, lo), x
		case 15:
			if w == 16 {
				s1, r1 := gen(depth-1, 8)
				s2, r2 := gen(depth-1, 8)
				return tt.Concat(s1, s2), rb.mk(OpConcat, 16, r1, r2)
			}
		}
		return leaf(w)
	}
	genBool = func(depth int) (*Term, *Term) {
		if depth == 0 {
			return leaf(0)
		}
		w := 8 + 8*rng.Intn(2)
		switch rng.Intn(10) {
		case 0:
			s, r := genBool(depth - 1)
			return tt.Not(s), rb.mk(OpNot, 0, r)
		case 1:
			s1, r1 := genBool(depth - 1)
			s2, r2 := genBool(depth - 1)
			return tt.And(s1, s2), rb.mk(OpAnd, 0, r1, r2)
		case 2:
			s1, r1 := genBool(depth - 1)
			s2, r2 := genBool(depth - 1)
			return tt.Or(s1, s2), rb.mk(OpOr, 0, r1, r2)
		case 3:
			c, cr := genBool(depth - 1)
			s1, r1 := genBool(depth - 1)
			s2, r2 := genBool(depth - 1)
			return tt.Ite(c, s1, s2), rb.mk(OpIte, 0, cr, r1, r2)
		default:
			s1, r1 := gen(depth-1, w)
			s2, r2 := gen(depth-1, w)
			if rng.Intn(2) == 0 {
				// boundary constants on either side (the ubound / known-bits folds live here)
				ks := []uint64{0, 1, 2, 3, 4, 7, 8, 14, 15, 16, 17, 0x3F, 0x40, 0x7F, 0x80, 0xFE, 0xFF, 0x100, 0x7FFF, 0x8000, 0xFFFE, 0xFFFF}
				c := tt.Const(w, ks[rng.Intn(len(ks))])
				if rng.Intn(2) == 0 {
					s2, r2 = c, c
				} else {
					s1, r1 = c, c
				}
			}
			cmps := []struct {
				op Op
				f  func(a, b *Term) *Term
			}{{OpEq, tt.Eq}, {OpUlt, tt.Ult}, {OpUle, tt.Ule}, {OpSlt, tt.Slt}, {OpSle, tt.Sle}}
			o := cmps[rng.Intn(len(cmps))]
			return o.f(s1, s2), rb.mk(o.op, 0, r1, r2)
		}
	}
	bad := 0
	evalBad := 0
	for i := 0; i < n; i++ {
		var s, r *Term
		if rng.Intn(3) == 0 {
			s, r = genBool(1 + rng.Intn(4))
		} else {
			s, r = gen(1+rng.Intn(4), 8+8*rng.Intn(2))
		}
		// (1) simplified == raw for all assignments
		p := NewSMTPrinter()
		for _, v := range append(append([]*Term{}, vars...), boolv...) {
			p.Ref(v)
		}
		neq := rb.mk(OpNot, 0, rb.mk(OpEq, 0, s, r))
		p.Assert(neq)
		res, m, note := sv.Check(p.String(), p.Vars)
		if res != Unsat {
			bad++
			fmt.Printf("MISMATCH #%d (%s %s): simplified %s  vs raw %s  model %v\n", i, res, note, TermString(s, 6), TermString(r, 6), m)
		}
		// (2) the model evaluator agrees with the solver on a random assignment
		asg := Model{"a": uint64(rng.Intn(256)), "b": uint64(rng.Intn(256)), "c": uint64(rng.Intn(65536)), "d": uint64(rng.Intn(65536)), "p": uint64(rng.Intn(2)), "q": uint64(rng.Intn(2))}
		got := asg.Eval(r, map[int]uint64{})
		p2 := NewSMTPrinter()
		for name, v := range asg {
			var vt *Term
			for _, x := range append(append([]*Term{}, vars...), boolv...) {
				if x.Name == name {
					vt = x
				}
			}
			p2.Assert(rb.mk(OpEq, 0, vt, tt.Const(vt.W, v)))
		}
		p2.Assert(rb.mk(OpNot, 0, rb.mk(OpEq, 0, r, tt.Const(r.W, got))))
		if res, _, _ := sv.Check(p2.String(), nil); res != Unsat {
			evalBad++
			fmt.Printf("EVAL MISMATCH #%d: %s under %v: evaluator says %d\n", i, TermString(r, 6), asg, got)
		}
		// (3) known-bits claims of the simplified term
		if s.W > 0 && (s.kz != 0 || s.ko != 0) && !s.IsConst() {
			p3 := NewSMTPrinter()
			okz := rb.mk(OpEq, 0, rb.mk(OpBvAnd, s.W, s, tt.Const(s.W, s.kz)), tt.Const(s.W, 0))
			oko := rb.mk(OpEq, 0, rb.mk(OpBvAnd, s.W, s, tt.Const(s.W, s.ko)), tt.Const(s.W, s.ko))
			p3.Assert(rb.mk(OpNot, 0, rb.mk(OpAnd, 0, okz, oko)))
			if res, _, _ := sv.Check(p3.String(), nil); res != Unsat {
				bad++
				fmt.Printf("KNOWN-BITS WRONG #%d: %s kz=%x ko=%x\n", i, TermString(s, 6), s.kz, s.ko)
			}
		}
	}
	fmt.Printf("selftest: %d random terms, %d simplifier/known-bits mismatches, %d evaluator mismatches\n", n, bad, evalBad)
	if bad+evalBad > 0 {
		return 1
	}
	return 0
}

func selfTestMain(args []string) int {
	n, seed := 2000, int64(1)
	if len(args) > 0 {
		n, _ = strconv.Atoi(args[0])
	}
	if len(args) > 1 {
		s, _ := strconv.Atoi(args[1])
		seed = int64(s)
	}
	if v := os.Getenv("VERIF_SEED"); v != "" && len(args) < 2 {
		s, _ := strconv.Atoi(v)
		seed = int64(s)
	}
	rc := selfTest(n, seed)
	if r := selfTestFP(n/4, seed); r != 0 {
		rc = r
	}
	return rc
}

// selfTestFP checks the concrete evaluator of the floating-point operations
// (used for constant folding and for evaluating models) against the solver's
// FloatingPoint theory on random and special bit patterns. Results that are
// NaN are compared as "is NaN" only: the payload is not defined by IEEE 754.
func selfTestFP(n int, seed int64) int {
	rng := rand.New(rand.NewSource(seed))
	tt := NewTermTable()
	rb := rawBuilder{tt}
	sv := NewSolver(SolverZ3New, 20000)
	defer sv.Close()
	special64 := []uint64{0, 1 << 63, 0x3FF0000000000000, 0xBFF0000000000000, 0x7FF0000000000000, 0xFFF0000000000000, 0x7FF8000000000001,
		0x43E0000000000000, 0xC3E0000000000000, 0x41E0000000000000, 0xC1E0000000000000, 0xC1E0000000200000, 0x4330000000000001, 1, 0x000FFFFFFFFFFFFF, 0x41CDCD6500000000}
	pick := func(w int) uint64 {
		if w == 64 {
			switch rng.Intn(3) {
			case 0:
				return special64[rng.Intn(len(special64))]
			case 1:
				return math.Float64bits(float64(rng.Int63n(1<<40)-1<<39) / float64(int64(1)<<uint(rng.Intn(40))))
			}
			return rng.Uint64()
		}
		if rng.Intn(2) == 0 {
			return uint64(math.Float32bits(float32(rng.Intn(1<<20)-1<<19) / float32(int(1)<<uint(rng.Intn(16)))))
		}
		return uint64(rng.Uint32())
	}
	bad := 0
	for i := 0; i < n; i++ {
		kind := rng.Intn(fpToFP + 1)
		w := 32 + 32*rng.Intn(2)
		var args []*Term
		rw := w
		switch kind {
		case fpAdd, fpSub, fpMul, fpDiv:
			args = []*Term{tt.Const(w, pick(w)), tt.Const(w, pick(w))}
		case fpLt, fpLe, fpEq:
			args = []*Term{tt.Const(w, pick(w)), tt.Const(w, pick(w))}
			rw = 0
		case fpFromS, fpFromU:
			iw := []int{8, 16, 32, 64}[rng.Intn(4)]
			v := rng.Uint64() >> uint(rng.Intn(64))
			if rng.Intn(2) == 0 {
				v = -v
			}
			args = []*Term{tt.Const(iw, v&mask(iw))}
		case fpToS:
			args = []*Term{tt.Const(w, pick(w))}
			rw = 32 + 32*rng.Intn(2)
		case fpToFP:
			args = []*Term{tt.Const(w, pick(w))}
			rw = 96 - w
		}
		vals := make([]uint64, len(args))
		for k, a := range args {
			vals[k] = a.Val
		}
		got := evalFP(kind, rw, args[0].W, vals)
		if os.Getenv("VERIF_SELFTEST_BREAK") != "" && i%50 == 7 {
			got ^= 1 // deliberately wrong: the self-test must notice
		}
		raw := &Term{Op: OpFP, W: rw, Hi: kind, Args: args}
		tt.nextID++
		raw.ID = tt.nextID
		p := NewSMTPrinter()
		isFloat := kind <= fpDiv || kind == fpFromS || kind == fpFromU || kind == fpToFP
		if isFloat && bitsToF(rw, got) != bitsToF(rw, got) {
			// NaN expected: the solver's value must be a NaN too
			ref := p.Ref(raw)
			fmt.Fprintf(&p.sb, "(assert (not (fp.isNaN %s)))\n", fpOf(rw, ref))
		} else {
			p.Assert(rb.mk(OpNot, 0, rb.mk(OpEq, 0, raw, tt.Const(rw, got))))
		}
		if res, _, note := sv.Check(p.String(), nil); res != Unsat {
			bad++
			fmt.Printf("FP EVAL MISMATCH #%d (%s %s): %s %v -> evaluator %#x\n", i, res, note, fpNames[kind], vals, got)
		}
	}
	fmt.Printf("selftest: %d floating-point operations, %d evaluator mismatches\n", n, bad)
	if bad > 0 {
		return 1
	}
	return 0
}
