package main

import (
	"crypto/sha1"
	"sync"

	"encoding/json"
	"fmt"
	"golang.org/x/tools/go/ssa"
	"os"
	"path/filepath"
	"runtime"
	"sort"
	"strconv"
	"strings"
	"time"
)

type HarnessRef struct {
	Func string `json:"func"`
	Pkg  string `json:"pkg"` // dir relative to /repo ("" = root package)
}

type TierCfg struct {
	Bounds     map[string]int `json:"bounds"`
	Unwind     int            `json:"unwind"`
	TimeoutS   int            `json:"solver_timeout_s"`
	Harnesses  []string       `json:"harnesses"` // subset of harness funcs; empty = all
	MaxPaths   int            `json:"max_paths"`
	MaxWallS   int            `json:"max_wall_s"`
	Cross      string         `json:"cross_solver"`
	CrossEvery int            `json:"cross_every"`
	BoundsText string         `json:"bounds_text"`
}

type CheckCfg struct {
	Property       string             `json:"property"`
	Harnesses      []HarnessRef       `json:"harnesses"`
	Solver         string             `json:"solver"`
	Tiers          map[string]TierCfg `json:"tiers"`
	OptionalCovers []string           `json:"optional_covers"`
	OutsideBounds  []string           `json:"outside_bounds"`
	Assumptions    []string           `json:"assumptions"`
	Oracle         string             `json:"oracle"`
	Files          []string           `json:"files"`
	// Fallback names harness files and functions that use only the public API.
	// They are loaded when the regular (white-box) files do not type-check
	// against the current tree, e.g. after a refactoring renamed a private
	// field. A violation they find is reported as usual; without one the run
	// stays INCONCLUSIVE, because the white-box part was not decided.
	Fallback *struct {
		Files     []string     `json:"files"`
		Harnesses []HarnessRef `json:"harnesses"`
	} `json:"fallback"`
}

func setHarnessFilter(files []string) {
	harnessFilter = nil
	if len(files) > 0 {
		harnessFilter = map[string]bool{}
		for _, f := range files {
			harnessFilter[f] = true
		}
	}
}

// outDir is where evidence and replays go (VERIF_OUT overrides, for scratch evaluations).
func outDir() string {
	if d := os.Getenv("VERIF_OUT"); d != "" {
		return d
	}
	return verifDir()
}

func verifDir() string {
	if d := os.Getenv("VERIF_DIR"); d != "" {
		return d
	}
	return "/verif"
}

func main() {
	if len(os.Args) < 2 {
		fmt.Fprintln(os.Stderr, "usage: symgo run <ID> quick|thorough | symgo replay <tape.json>")
		os.Exit(2)
	}
	switch os.Args[1] {
	case "run":
		if len(os.Args) < 4 {
			fmt.Fprintln(os.Stderr, "usage: symgo run <ID> quick|thorough")
			os.Exit(2)
		}
		os.Exit(runCheck(os.Args[2], os.Args[3]))
	case "selftest":
		os.Exit(selfTestMain(os.Args[2:]))
	case "replay":
		os.Exit(replayTape(os.Args[2]))
	default:
		fmt.Fprintln(os.Stderr, "unknown command")
		os.Exit(2)
	}
}

func loadKnown(P *Program) error {
	b, err := os.ReadFile(filepath.Join(verifDir(), "known_findings.json"))
	if err != nil {
		if os.IsNotExist(err) {
			return nil
		}
		return err
	}
	var f struct {
		Findings []*KnownFinding `json:"findings"`
	}
	if err := json.Unmarshal(b, &f); err != nil {
		return fmt.Errorf("known_findings.json: %v", err)
	}
	for _, k := range f.Findings {
		P.known[k.ID] = k
	}
	return nil
}

func envInt(name string, def int) int {
	if v := os.Getenv(name); v != "" {
		if n, err := strconv.Atoi(v); err == nil {
			return n
		}
	}
	return def
}

func relOfPkgPath(p string) string {
	return strings.TrimPrefix(strings.TrimPrefix(p, modPath), "/")
}

func runCheck(id, tier string) int {
	t0 := time.Now()
	vd := verifDir()
	os.MkdirAll(filepath.Join(vd, ".work"), 0o755)
	os.MkdirAll(filepath.Join(outDir(), "evidence"), 0o755)
	os.MkdirAll(filepath.Join(outDir(), "replays"), 0o755)
	cb, err := os.ReadFile(filepath.Join(vd, "checks", id+".json"))
	if err != nil {
		fmt.Fprintln(os.Stderr, "cannot read check config:", err)
		return 2
	}
	var cc CheckCfg
	if err := json.Unmarshal(cb, &cc); err != nil {
		fmt.Fprintln(os.Stderr, "bad check config:", err)
		return 2
	}
	tc, ok := cc.Tiers[tier]
	if !ok {
		fmt.Fprintln(os.Stderr, "no such tier:", tier)
		return 2
	}
	seed := int64(envInt("VERIF_SEED", 1))
	inconclusive := []string{}
	setHarnessFilter(cc.Files)
	lt0 := time.Now()
	P, err := LoadProgram(vd)
	if err != nil && cc.Fallback != nil {
		setHarnessFilter(cc.Fallback.Files)
		if P2, err2 := LoadProgram(vd); err2 == nil {
			msg := err.Error()
			if len(msg) > 400 {
				msg = msg[:400] + "…"
			}
			inconclusive = append(inconclusive, "the white-box harnesses do not type-check against the current tree; only the API-level harnesses ran: "+msg)
			P, err = P2, nil
			cc.Harnesses = cc.Fallback.Harnesses
		}
	}
	if err != nil {
		fmt.Println("INCONCLUSIVE: cannot load /repo with harnesses:", err)
		writeEvidence(id, tier, seed, nil, &cc, &tc, []string{"load failed: " + err.Error()}, nil, 0, time.Since(t0).Seconds(), nil, 0)
		return 3
	}
	P.loadSeconds = time.Since(lt0).Seconds()
	if err := loadKnown(P); err != nil {
		fmt.Println("INCONCLUSIVE:", err)
		return 3
	}
	cfg := &RunConfig{
		Unwind: 4000, MaxSteps: 20_000_000, MaxAlloc: 1 << 19, MaxConcretize: 70000,
		Bounds: tc.Bounds, Solver: SolverKind(cc.Solver), TimeoutMs: 20000,
		Workers: envInt("VERIF_WORKERS", runtime.NumCPU()), Seed: seed, MaxPaths: tc.MaxPaths,
		Debug: os.Getenv("VERIF_DEBUG") != "",
	}
	if cfg.Solver == "" {
		cfg.Solver = SolverZ3New
	}
	if sv := os.Getenv("VERIF_SOLVER"); sv != "" {
		cfg.Solver = SolverKind(sv)
	}
	if tc.Cross != "" {
		cfg.CrossSolver = SolverKind(tc.Cross)
		cfg.CrossEvery = tc.CrossEvery
		if cfg.CrossEvery == 0 {
			cfg.CrossEvery = 10
		}
	}
	if tc.Unwind > 0 {
		cfg.Unwind = tc.Unwind
	}
	budget := tc.MaxWallS
	if budget == 0 {
		budget = 1200
		if tier == "thorough" {
			budget = 6 * 3600
		}
	}
	cfg.Deadline = t0.Add(time.Duration(budget) * time.Second)
	if tc.TimeoutS > 0 {
		cfg.TimeoutMs = tc.TimeoutS * 1000
	}
	if ob := os.Getenv("VERIF_BOUNDS"); ob != "" {
		nb := map[string]int{}
		for k, v := range cfg.Bounds {
			nb[k] = v
		}
		for _, kv := range strings.Split(ob, ",") {
			if i := strings.IndexByte(kv, '='); i > 0 {
				n, _ := strconv.Atoi(kv[i+1:])
				nb[kv[:i]] = n
			}
		}
		cfg.Bounds = nb
		tc.Bounds = nb
	}
	want := map[string]bool{}
	for _, h := range tc.Harnesses {
		want[h] = true
	}
	only := os.Getenv("VERIF_ONLY")
	var results []*HarnessResult
	relOf := map[string]string{}
	type job struct {
		h  HarnessRef
		fn *ssa.Function
		r  *HarnessResult
	}
	var jobs []*job
	for _, h := range cc.Harnesses {
		if len(want) > 0 && !want[h.Func] {
			continue
		}
		if only != "" && !strings.Contains(h.Func, only) {
			continue
		}
		path := modPath
		if h.Pkg != "" {
			path += "/" + h.Pkg
		}
		fn, err := P.findHarness(path, h.Func)
		if err != nil {
			fmt.Println("INCONCLUSIVE:", err)
			return 3
		}
		jobs = append(jobs, &job{h: h, fn: fn})
	}
	// harnesses are explored concurrently (at most 3 at a time), each with its own worker pool
	sem := make(chan struct{}, 3)
	var wg sync.WaitGroup
	for _, j := range jobs {
		wg.Add(1)
		go func(j *job) {
			defer wg.Done()
			sem <- struct{}{}
			defer func() { <-sem }()
			j.r = Explore(P, j.fn, cfg)
		}(j)
	}
	wg.Wait()
	opt := map[string]bool{}
	for _, c := range cc.OptionalCovers {
		opt[c] = true
	}
	for _, j := range jobs {
		r := j.r
		relOf[j.h.Func] = j.h.Pkg
		results = append(results, r)
		fmt.Printf("harness %-40s paths=%d dead=%d viol-paths=%d queries=%d (unsat %d, sat %d, unknown %d) model-hits=%d solver=%.1fs wall=%.1fs\n",
			r.Harness, r.Paths, r.DeadPaths, r.ViolPaths, r.Queries, r.Unsat, r.SatQ, r.UnknownQ, r.ModelHits, float64(r.SolverNs)/1e9, r.WallS)
		for _, p := range r.Problems {
			inconclusive = append(inconclusive, r.Harness+": "+p)
		}
		// vacuity: every static cover must be reachable (by some harness of this check)
		for _, c := range r.StaticCovers {
			hit := false
			for _, j2 := range jobs {
				if j2.r.Covers[c] > 0 {
					hit = true
				}
			}
			if !hit && !opt[c] {
				inconclusive = append(inconclusive, fmt.Sprintf("%s: cover %q never reached (vacuous harness or bound too small)", r.Harness, c))
			}
		}
		if r.Covers[lastCoverOf(r)] == 0 && len(r.StaticCovers) > 0 && r.Paths > 0 && false {
			_ = r
		}
		if r.Paths == 0 && len(r.Violations) == 0 {
			inconclusive = append(inconclusive, r.Harness+": no path completed")
		}
	}
	funcsByRel := P.harnessFuncNames()

	// ---- native confirmation of violations ----
	violations := 0
	type pend struct {
		v    *Violation
		rel  string
		kf   string
		file string
	}
	var pends []pend
	for _, r := range results {
		for _, k := range sortedKeys(r.Violations) {
			pends = append(pends, pend{v: r.Violations[k], rel: relOf[r.Harness]})
		}
		for _, k := range sortedKeys(r.KnownHits) {
			pends = append(pends, pend{v: r.KnownHits[k], rel: relOf[r.Harness], kf: k})
		}
	}
	byRel := map[string][]int{}
	for i := range pends {
		byRel[pends[i].rel] = append(byRel[pends[i].rel], i)
	}
	validated := 0
	knownPrinted := map[string]bool{}
	var violSummaries []map[string]interface{}
	for _, rel := range sortedKeys(byRel) {
		idxs := byRel[rel]
		var tapes []NativeTape
		for _, i := range idxs {
			v := pends[i].v
			nt := NativeTape{Harness: v.Harness, Values: v.Tape, Bounds: tc.Bounds, Pkg: rel, Prop: id,
				Expect: map[string]string{"kind": v.Kind, "id": v.ID, "where": v.Where, "shape": v.Shape}}
			tapes = append(tapes, nt)
			b, _ := json.MarshalIndent(nt, "", " ")
			h := sha1.Sum(b)
			if pends[i].kf != "" {
				pends[i].file = filepath.Join(outDir(), "replays", fmt.Sprintf("%s-%s-%s.json", id, pends[i].kf, tier))
			} else {
				pends[i].file = filepath.Join(outDir(), "replays", fmt.Sprintf("%s-%s-%x.json", id, v.Harness, h[:5]))
			}
			os.WriteFile(pends[i].file, b, 0o644)
		}
		res, out, err := RunNative(vd, rel, funcsByRel, tapes, false)
		if err != nil {
			inconclusive = append(inconclusive, fmt.Sprintf("native replay failed: %v\n%s", err, tail(out, 2000)))
			continue
		}
		// data races are confirmed by running the threads truly concurrently under the race detector
		raceSeen := map[int]bool{}
		for j, i := range idxs {
			if pends[i].v.ID == "datarace" {
				_, rout, _ := RunNative(vd, rel, funcsByRel, []NativeTape{tapes[j]}, true)
				raceSeen[j] = strings.Contains(rout, "DATA RACE")
			}
		}
		// a schedule-dependent counterexample that the operation-by-operation replay does
		// not reproduce (its interleaving cuts through an operation) gets a second chance:
		// the harness is run with real goroutines again and again for a while
		for j, i := range idxs {
			if pends[i].v.ID == "datarace" || !tapeHasSchedule(&tapes[j]) {
				continue
			}
			if o := res[j].Outcome; o == "assert" || o == "panic" || o == "hang" {
				continue
			}
			if sres, _, serr := RunNative(vd, rel, funcsByRel, []NativeTape{tapes[j]}, false, 20); serr == nil && len(sres) == 1 {
				if o := sres[0].Outcome; o == "assert" || o == "panic" {
					res[j] = sres[0]
				}
			}
		}
		for j, i := range idxs {
			v := pends[i].v
			nr := res[j]
			failed := nr.Outcome == "assert" || nr.Outcome == "panic" || nr.Outcome == "hang"
			if v.ID == "datarace" {
				failed = raceSeen[j]
				nr.Outcome, nr.ID = "race-detector", fmt.Sprintf("DATA RACE reported: %v", raceSeen[j])
			}
			validated++
			if pends[i].kf != "" {
				kf := P.known[pends[i].kf]
				if failed {
					if !knownPrinted[kf.ID] {
						knownPrinted[kf.ID] = true
						fmt.Printf("KNOWN-FINDING: property=%s %s [%s; witness %s; native: %s %s]\n", id, kf.What, kf.ID, pends[i].file, nr.Outcome, nr.ID)
					}
				} else {
					inconclusive = append(inconclusive, fmt.Sprintf("known finding %s: engine witness does not fail natively (outcome %s %s)", kf.ID, nr.Outcome, nr.Msg))
				}
				continue
			}
			if failed {
				violations++
				fmt.Printf("VIOLATION property=%s replay=%s\n", id, pends[i].file)
				fmt.Printf("  harness=%s %s %q at [%s] shape{%s}; native outcome: %s %s %s\n", v.Harness, v.Kind, v.ID, v.Where, v.Shape, nr.Outcome, nr.ID, firstLine(nr.Msg))
				violSummaries = append(violSummaries, map[string]interface{}{"harness": v.Harness, "kind": v.Kind, "id": v.ID, "where": v.Where,
					"shape": v.Shape, "replay": pends[i].file, "native_outcome": nr.Outcome, "native_id": nr.ID, "active_known_regions": v.Known})
			} else {
				inconclusive = append(inconclusive, fmt.Sprintf("%s: solver counterexample for %s %q does not reproduce natively (outcome %s %s %s) — encoder or stub is wrong; tape %s",
					v.Harness, v.Kind, v.ID, nr.Outcome, nr.ID, firstLine(nr.Msg), pends[i].file))
			}
		}
	}
	// known findings that were not hit at all
	for _, kid := range sortedKeys(P.known) {
		kf := P.known[kid]
		if kf.Property != id || kf.Status != "known" {
			continue
		}
		ran := false
		for _, r := range results {
			if kf.Harness == "" || kf.Harness == r.Harness {
				ran = true
			}
		}
		if ran && !knownPrinted[kid] {
			hit := false
			for _, r := range results {
				if r.KnownCount[kid] > 0 {
					hit = true
				}
			}
			if !hit {
				fmt.Printf("note: known finding %s no longer reproduces in this tier's bounds (%s)\n", kid, kf.What)
			}
		}
	}

	// ---- translator validation: sampled completed paths must run natively to the same covers ----
	valMismatch := 0
	valRun := 0
	if os.Getenv("VERIF_NOVALIDATE") == "" {
		byRelV := map[string][]PathSample{}
		for _, r := range results {
			for _, s := range r.ValTapes {
				byRelV[relOf[r.Harness]] = append(byRelV[relOf[r.Harness]], s)
			}
		}
		for _, rel := range sortedKeys(byRelV) {
			ss := byRelV[rel]
			var tapes []NativeTape
			for _, s := range ss {
				tapes = append(tapes, NativeTape{Harness: s.Harness, Values: s.Tape, Bounds: tc.Bounds})
			}
			res, out, err := RunNative(vd, rel, funcsByRel, tapes, false)
			if err != nil {
				inconclusive = append(inconclusive, fmt.Sprintf("translator validation could not run: %v\n%s", err, tail(out, 2000)))
				continue
			}
			for j, s := range ss {
				valRun++
				nr := res[j]
				if nr.Outcome != "pass" || strings.Join(nr.Covers, "|") != strings.Join(s.Covers, "|") {
					valMismatch++
					f := filepath.Join(outDir(), "replays", fmt.Sprintf("%s-validation-mismatch-%d.json", id, valMismatch))
					b, _ := json.MarshalIndent(tapes[j], "", " ")
					os.WriteFile(f, b, 0o644)
					inconclusive = append(inconclusive, fmt.Sprintf("translator validation: %s shape{%s}: engine path completes with covers %v, native run gives %s %s %s covers %v (tape %s)",
						s.Harness, s.Shape, s.Covers, nr.Outcome, nr.ID, firstLine(nr.Msg), nr.Covers, f))
				}
			}
		}
	}
	validated += valRun

	wall := time.Since(t0).Seconds()
	writeEvidence(id, tier, seed, results, &cc, &tc, inconclusive, violSummaries, validated, wall, P, valMismatch)
	if violations > 0 {
		return 1
	}
	if len(inconclusive) > 0 {
		for _, m := range inconclusive {
			fmt.Println("INCONCLUSIVE:", m)
		}
		return 3
	}
	fmt.Printf("OK property=%s tier=%s wall=%.1fs\n", id, tier, wall)
	return 0
}

func lastCoverOf(r *HarnessResult) string { return "" }

func tapeHasSchedule(t *NativeTape) bool {
	for _, v := range t.Values {
		if v.Kind == "sched" {
			return true
		}
	}
	return false
}

func firstLine(s string) string {
	if i := strings.IndexByte(s, '\n'); i >= 0 {
		return s[:i]
	}
	return s
}

func tail(s string, n int) string {
	if len(s) > n {
		return s[len(s)-n:]
	}
	return s
}

func writeEvidence(id, tier string, seed int64, results []*HarnessResult, cc *CheckCfg, tc *TierCfg, inconclusive []string,
	viol []map[string]interface{}, validated int, wall float64, P *Program, valMismatch int) {
	states, transitions, queries, unsat, sat, unknown, modelHits := 0, 0, 0, 0, 0, 0, 0
	cross, crossAgree, crossUnknown := 0, 0, 0
	var solverS float64
	funcs := map[string]bool{}
	covers := map[string]int{}
	asserts := map[string]int{}
	var samples []interface{}
	perHarness := []map[string]interface{}{}
	known := map[string]int{}
	loose := map[string]int{}
	shapes := 0
	for _, r := range results {
		states += r.Paths + r.ViolPaths
		transitions += r.Decisions
		queries += r.Queries
		unsat += r.Unsat
		sat += r.SatQ
		unknown += r.UnknownQ
		modelHits += r.ModelHits
		cross += r.Cross
		crossAgree += r.CrossAgree
		crossUnknown += r.CrossUnknown
		solverS += float64(r.SolverNs) / 1e9
		for f := range r.Funcs {
			funcs[f] = true
		}
		for c, n := range r.Covers {
			covers[c] += n
		}
		for a, n := range r.Asserts {
			asserts[a] += n
		}
		for k, n := range r.KnownCount {
			known[k] += n
		}
		for k, n := range r.LooseKF {
			loose[k] += n
		}
		shapes += len(r.Shapes)
		for _, s := range r.Samples {
			if len(samples) < 6 {
				samples = append(samples, s)
			}
		}
		perHarness = append(perHarness, map[string]interface{}{"harness": r.Harness, "paths": r.Paths, "dead_paths": r.DeadPaths,
			"violating_paths": r.ViolPaths, "shapes": len(r.Shapes), "queries": r.Queries, "solver_s": float64(r.SolverNs) / 1e9, "wall_s": r.WallS,
			"ssa_steps": r.Steps})
	}
	if len(samples) == 0 {
		samples = append(samples, "no path completed")
	}
	fl := sortedKeys(funcs)
	stubs := []string{}
	for k, v := range stubDocs {
		stubs = append(stubs, k+": "+v)
	}
	sort.Strings(stubs)
	cov := map[string]interface{}{
		"states":                        states,
		"transitions":                   transitions,
		"traces_validated_against_impl": validated,
		"samples":                       samples,
		"exhaustive":                    len(inconclusive) == 0,
		"explanation": "states = feasible symbolic paths executed to completion (each covers every input satisfying its path condition); " +
			"transitions = solver-decided branch decisions; case-split shapes are enumerated exhaustively; all verdicts are SMT unsat/sat answers over the SSA of /repo's current working tree",
		"functions_encoded":                fl,
		"bounds":                           tc.Bounds,
		"bounds_text":                      tc.BoundsText,
		"outside_bounds":                   cc.OutsideBounds,
		"oracle":                           cc.Oracle,
		"shapes":                           shapes,
		"queries":                          queries,
		"queries_unsat":                    unsat,
		"queries_sat":                      sat,
		"queries_unknown":                  unknown,
		"answered_by_cached_model":         modelHits,
		"solver_time_s":                    solverS,
		"solver":                           cc.Solver,
		"unwind_ok":                        !containsSub(inconclusive, "unwinding"),
		"covers_hit":                       covers,
		"assertions_checked":               asserts,
		"known_finding_hits":               known,
		"known_finding_loose_paths":        loose,
		"stubs":                            stubs,
		"per_harness":                      perHarness,
		"inconclusive":                     inconclusive,
		"violations_detail":                viol,
		"translator_validation_mismatches": valMismatch,
		"second_solver": map[string]interface{}{"solver": tc.Cross, "verdict_queries_rechecked": cross, "agreed": crossAgree, "second_solver_unknown": crossUnknown,
			"note": "a sample of the verdict queries (assertions and panic checks) is re-decided as a fresh one-shot problem on the second solver; a disagreement aborts the run as INCONCLUSIVE"},
	}
	if P != nil {
		cov["ssa_load_s"] = P.loadSeconds
	}
	if cov["solver"] == "" {
		cov["solver"] = "z3-new"
	}
	ev := map[string]interface{}{
		"property_id": id, "tier": tier, "seed": seed, "level": "model_checking", "coverage": cov,
		"assumptions": append([]string{
			"M1 append reallocates to exactly the needed capacity", "M4 int is 64 bits (linux/amd64)",
			"environment stubs as listed under coverage.stubs", "go/ssa lowering, this executor and the SMT solver are trusted (executor validated by native replay of sampled paths)"},
			cc.Assumptions...),
		"wall_s": wall, "violations": len(viol),
	}
	b, _ := json.MarshalIndent(ev, "", " ")
	os.WriteFile(filepath.Join(outDir(), "evidence", id+".json"), b, 0o644)
}

func containsSub(xs []string, sub string) bool {
	for _, x := range xs {
		if strings.Contains(x, sub) {
			return true
		}
	}
	return false
}

func replayTape(path string) int {
	b, err := os.ReadFile(path)
	if err != nil {
		fmt.Fprintln(os.Stderr, err)
		return 2
	}
	var nt NativeTape
	if err := json.Unmarshal(b, &nt); err != nil {
		fmt.Fprintln(os.Stderr, err)
		return 2
	}
	vd := verifDir()
	os.MkdirAll(filepath.Join(vd, ".work"), 0o755)
	if cb, err := os.ReadFile(filepath.Join(vd, "checks", nt.Prop+".json")); err == nil {
		var cc CheckCfg
		if json.Unmarshal(cb, &cc) == nil {
			setHarnessFilter(cc.Files)
			if cc.Fallback != nil {
				for _, h := range cc.Fallback.Harnesses {
					if h.Func == nt.Harness {
						setHarnessFilter(cc.Fallback.Files)
					}
				}
			}
		}
	}
	// function registry by parsing harness sources is not available without SSA; load the program
	P, err := LoadProgram(vd)
	if err != nil {
		fmt.Fprintln(os.Stderr, err)
		return 3
	}
	res, out, err := RunNative(vd, nt.Pkg, P.harnessFuncNames(), []NativeTape{nt}, false)
	if err != nil {
		fmt.Fprintln(os.Stderr, err, out)
		return 3
	}
	r := res[0]
	fmt.Printf("native outcome: %s %s\n%s\n", r.Outcome, r.ID, r.Msg)
	if r.Outcome == "assert" || r.Outcome == "panic" || r.Outcome == "hang" {
		fmt.Printf("VIOLATION property=%s replay=%s\n", nt.Prop, path)
		return 1
	}
	return 0
}
