#!/bin/sh
# usage: tools/try_mutant.sh <PROP> <patch> [tier]
# Evaluates a seeded change on a scratch worktree of /repo's HEAD (VERIF_REPO), so /repo
# itself stays untouched and other checks can run meanwhile. Output goes to a scratch dir.
P=$1; PATCH=$2; TIER=${3:-quick}
W=/tmp/mutrun/$P-$$
mkdir -p /tmp/mutrun
git -C /repo worktree add -q --detach "$W" HEAD || exit 2
( cd "$W" && git apply "$PATCH" ) || { echo "patch does not apply"; git -C /repo worktree remove --force "$W"; exit 2; }
cd /verif
VERIF_REPO="$W" VERIF_OUT="$W/.verifout" timeout 1500 ./check "$P" "$TIER" > /tmp/try_mutant.$P.$$.log 2>&1
rc=$?
git -C /repo worktree remove --force "$W"
echo "exit=$rc"
grep -a "^VIOLATION\|^  harness\|^INCONCLUSIVE\|^OK\|^KNOWN" /tmp/try_mutant.$P.$$.log | cut -c1-260 | head -8
rm -f /tmp/try_mutant.$P.$$.log
