#!/bin/sh
# usage: tools/try_mutant.sh <PROP> <patch> [tier]   — applies the patch to /repo, runs the check, always reverts
P=$1; PATCH=$2; TIER=${3:-quick}
cd /repo || exit 2
git diff --quiet || { echo "/repo has local modifications"; exit 2; }
git apply "$PATCH" || { echo "patch does not apply"; exit 2; }
cd /verif
timeout 1500 ./check "$P" "$TIER" > /tmp/try_mutant.$P.log 2>&1
rc=$?
git -C /repo checkout -- .
echo "exit=$rc"
grep -a "^VIOLATION\|^  harness\|^INCONCLUSIVE\|^OK\|^KNOWN" /tmp/try_mutant.$P.log | cut -c1-260 | head -12
