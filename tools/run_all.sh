#!/bin/sh
# usage: tools/run_all.sh quick|thorough [ids...]  — runs the checks one after the other, prints one line each
TIER=${1:-quick}; shift
IDS="$@"; [ -z "$IDS" ] && IDS="C01 C02 C03 C04 C05 C06 C07 C08 C09 C10 C11 C12 C13 C14 C15 C16 C17 C18 C19 C20"
cd "$(dirname "$0")/.." || exit 2
for id in $IDS; do
  s=$(date +%s)
  ./check $id $TIER > .work/all.$id.$TIER.log 2>&1; rc=$?
  e=$(date +%s)
  echo "$id $TIER exit=$rc $((e-s))s $(grep -ac '^KNOWN-FINDING' .work/all.$id.$TIER.log) known $(grep -a '^INCONCLUSIVE\|^VIOLATION' .work/all.$id.$TIER.log | head -2 | cut -c1-160)"
done
