#!/usr/bin/env python3
"""Regenerate /verif/MANIFEST.json from checks/*.json + tools/claims.json."""
import json, glob, os, subprocess
root = os.path.dirname(os.path.dirname(os.path.abspath(__file__)))
props = [json.loads(l) for l in open(os.path.join(root, 'properties.jsonl'))]
claims = json.load(open(os.path.join(root, 'tools', 'claims.json')))
fixes = [l.split()[0] for l in subprocess.check_output(['git', '-C', '/repo', 'log', '--format=%h %s']).decode().splitlines() if ' fix:' in ' ' + l]
checks, na = [], []
for p in props:
    pid = p['id']
    c = claims.get(pid)
    if not c or not c.get('claimed'):
        na.append({"property_id": pid, "reason": (c or {}).get('reason', 'check not built yet')})
        continue
    cfg = json.load(open(os.path.join(root, 'checks', pid + '.json')))
    checks.append({
        "property_id": pid,
        "quick_cmd": "./check %s quick" % pid,
        "thorough_cmd": "./check %s thorough" % pid,
        "evidence_file": "/verif/evidence/%s.json" % pid,
        "replay_cmd_template": "bin/symgo replay {path}",
        "engine": "symgo",
        "level_claimed": {
            "category": "model_checking",
            "text": c['text'],
            "design_ref": c.get('design_ref', 'DESIGN.md section 5, ' + pid),
        },
        "level_note": c['note'],
        "technique": c.get('technique', "bounded symbolic execution of the go/ssa form of the real code (own SSA->SMT-LIB2 QF_BV encoder), verdicts by z3; counterexamples replayed natively"),
    })
m = {
    "version": 1,
    "setup_cmd": "cd /verif/engine && GOFLAGS=-mod=mod GOPROXY=off GOSUMDB=off GOTOOLCHAIN=local go build -o /verif/bin/symgo .",
    "hooks": {"guard": "verif", "enable": "none needed: harnesses are injected with go/packages Overlay (symbolic run) and go test -overlay (native replay); /repo carries no hooks",
              "baseline_off_cmd": "cd /repo && go test -vet=off -count=1 ./...", "source_commits": fixes, "add_only": True},
    "engines": [{"name": "symgo", "path": "/verif/engine", "serves_properties": [c['property_id'] for c in checks],
                 "kind_free_text": "symbolic executor for go/ssa (x/tools v0.29.0) emitting SMT-LIB2 bit-vector queries to z3 4.8.12 (cvc5 int-blasting for C18); forks by re-execution; native replay through go test -overlay"}],
    "checks": checks,
    "not_applicable": na,
    "notes": "All checks rebuild the SSA from /repo's working tree on every run. Exit 0 = held within the stated bounds, 1 = VIOLATION (natively replayed), 3 = INCONCLUSIVE (solver unknown, unsupported construct, unwinding/wall budget, or translator validation mismatch). source_commits lists the unguarded fix: commits in /repo.",
}
json.dump(m, open(os.path.join(root, 'MANIFEST.json'), 'w'), indent=1)
print("claimed:", [c['property_id'] for c in checks])
