#!/usr/bin/env python3
"""Confirm a seeded mutant in its scratch worktree and file it under /verif/seeded/<id>/.
usage: confirm_seeded.py <PROP> <A|B> "<what it needs to manifest>" "<detected-by text>"
"""
import sys, os, re, subprocess, json, shutil
prop, m, needs, detected = sys.argv[1:5]
base = sys.argv[5] if len(sys.argv) > 5 else '/tmp/mut'
idletter = sys.argv[6] if len(sys.argv) > 6 else m
wt = '%s/%s' % (base, prop)
env = dict(os.environ, GOFLAGS='-mod=mod', GOPROXY='off', GOSUMDB='off', GOTOOLCHAIN='local')
def run(cmd, **kw):
    r = subprocess.run(cmd, shell=True, cwd=wt, env=env, capture_output=True, text=True, **kw)
    return r.returncode, (r.stdout + r.stderr)[-1500:]
patch = '%s/mutant%s.patch' % (wt, m)
demo = '%s/demo%s_test.go.txt' % (wt, m)
src = open(demo).read()
pk = re.search(r'^package\s+(\w+)', src, re.M).group(1)
pkgdir = {'rtp': '.', 'rtp_test': '.', 'codecs': 'codecs', 'codecs_test': 'codecs', 'obu': 'codecs/av1/obu', 'obu_test': 'codecs/av1/obu',
          'frame': 'codecs/av1/frame', 'frame_test': 'codecs/av1/frame', 'vp9': 'codecs/vp9', 'vp9_test': 'codecs/vp9'}[pk]
run('git checkout -- . && rm -f zz_demo*_test.go */zz_demo*_test.go */*/zz_demo*_test.go */*/*/zz_demo*_test.go')
steps = {}
rc, out = run('git apply --check %s && git apply %s' % (patch, patch)); steps['apply'] = rc
rc, out = run('go build ./...'); steps['build_with_mutant'] = rc
rc, out = run('go test -vet=off -count=1 ./...'); steps['suite_with_mutant'] = rc
target = os.path.join(wt, pkgdir, 'zz_demo%s_test.go' % m)
shutil.copy(demo, target)
rc, out1 = run('go test -vet=off -count=1 -run "ZZ|Demo|demo" ./%s' % pkgdir); steps['demo_with_mutant'] = rc
run('git checkout -- .')
rc, out2 = run('go test -vet=off -count=1 -run "ZZ|Demo|demo" ./%s' % pkgdir); steps['demo_without_mutant'] = rc
os.remove(target)
ok = steps['apply'] == 0 and steps['build_with_mutant'] == 0 and steps['suite_with_mutant'] == 0 and steps['demo_with_mutant'] != 0 and steps['demo_without_mutant'] == 0
print(prop, m, 'CONFIRMED' if ok else 'NOT CONFIRMED', steps)
if not ok:
    print(out1[-600:], out2[-600:]); sys.exit(1)
sid = '%s-%s' % (prop, idletter)
d = '/verif/seeded/%s' % sid
os.makedirs(d, exist_ok=True)
shutil.copy(patch, d + '/patch.diff')
shutil.copy(demo, d + '/demo_test.go.txt')
meta = {"id": sid, "property": prop, "breaks": open('/tmp/mut/%s.prop.txt' % prop).read().split('\n')[0],
        "needs_to_manifest": needs, "demo_package_dir": pkgdir,
        "confirmed": {"how": "scratch worktree %s at /repo HEAD: git apply; go build ./...; go test -vet=off -count=1 ./... (existing suite passes with the change); demo test fails with the change and passes without it" % wt, "steps_exit_codes": steps},
        "detected_by": detected}
json.dump(meta, open(d + '/meta.json', 'w'), indent=1)
