package rtp

// C01 — RTP packet/header encode/decode round trip is lossless.

var (
	verifCCq   = []int{0, 1, 15}
	verifPadq  = []int{0, 1, 4, 255}
	verifPlenq = []int{0, 1, 5}
)

func verifRange(n int) []int {
	t := make([]int, n+1)
	for i := range t {
		t[i] = i
	}
	return t
}

func verifC01Shape() (cc, kind, ne int, full bool) {
	full = verifBound("C01.full") == 1
	kind = verifCase("profile", 0, 3)
	if full && kind == 0 {
		cc = verifCase("cc", 0, 15) // every CSRC count on the extension-less shapes
	} else {
		cc = verifPick("cc", verifCCq)
	}
	switch kind {
	case 0:
		ne = 0
	case 3:
		ne = 1
	default:
		ne = verifCase("next", 0, verifBound("C01.maxext"))
	}
	return
}

func VerifC01Packet() {
	cc, kind, ne, full := verifC01Shape()
	var p Packet
	verifFixedFields(&p.Header, cc)
	m := verifSetExtensions(&p.Header, kind, ne, full && ne <= 1)
	if full && kind == 0 {
		p.Payload = verifBytes("payload", verifCase("plen", 0, verifBound("C01.maxpayload")))
	} else {
		p.Payload = verifBytes("payload", verifPick("plen", verifPlenq))
	}
	pad := verifPick("pad", verifPadq)
	p.PaddingSize = uint8(pad)
	p.Padding = pad != 0

	size := p.MarshalSize()
	raw, err := p.Marshal()
	verifAssert("C01.marshal-noerr", err == nil)
	verifAssert("C01.marshal-size", len(raw) == size)

	var q Packet
	err = q.Unmarshal(raw)
	verifAssert("C01.unmarshal-noerr", err == nil)
	verifHeaderEqual("C01.pkt", &q.Header, &p.Header, &m)
	verifAssert("C01.payload", verifEqBytes(q.Payload, p.Payload))
	verifAssert("C01.padsize", q.PaddingSize == p.PaddingSize)
	verifCover("C01.packet.end")
	if kind == 1 {
		verifCover("C01.packet.onebyte")
	}
	if kind == 2 {
		verifCover("C01.packet.twobyte")
	}
	if kind == 3 {
		verifCover("C01.packet.legacy")
	}
}

func VerifC01Header() {
	cc, kind, ne, full := verifC01Shape()
	var h Header
	verifFixedFields(&h, cc)
	h.Padding = verifBool("padding")
	m := verifSetExtensions(&h, kind, ne, full && ne <= 1)
	size := h.MarshalSize()
	raw, err := h.Marshal()
	verifAssert("C01.h.marshal-noerr", err == nil)
	verifAssert("C01.h.marshal-size", len(raw) == size)
	var g Header
	n, err := g.Unmarshal(raw)
	verifAssert("C01.h.unmarshal-noerr", err == nil)
	verifAssert("C01.h.n", n == size)
	verifHeaderEqual("C01.hdr", &g, &h, &m)
	verifCover("C01.header.end")
}

// every padding size 0..255 (symbolic), minimal header
func VerifC01Padding() {
	var p Packet
	verifFixedFields(&p.Header, 0)
	p.Payload = verifBytes("payload", verifCase("plen", 0, 2))
	p.PaddingSize = verifU8("pad")
	p.Padding = p.PaddingSize != 0
	m := verifExtModel{}
	size := p.MarshalSize()
	raw, err := p.Marshal()
	verifAssert("C01.pad.marshal-noerr", err == nil)
	verifAssert("C01.pad.marshal-size", len(raw) == size)
	var q Packet
	err = q.Unmarshal(raw)
	verifAssert("C01.pad.unmarshal-noerr", err == nil)
	verifHeaderEqual("C01.pad", &q.Header, &p.Header, &m)
	verifAssert("C01.pad.payload", verifEqBytes(q.Payload, p.Payload))
	verifAssert("C01.pad.padsize", q.PaddingSize == p.PaddingSize)
	if p.PaddingSize == 255 {
		verifCover("C01.pad.255")
	}
	verifCover("C01.pad.end")
}
