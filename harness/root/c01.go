package rtp

// C01 — RTP packet/header encode/decode round trip is lossless.

var (
	verifCCq   = []int{0, 1, 15}
	verifPadq  = []int{0, 1, 4, 255}
	verifPlenq = []int{0, 1, 5}
)

func verifRange(n int) []int {
	t := make([]int, n+1)
	for i := range t {
		t[i] = i
	}
	return t
}

func verifC01Shape() (cc, kind, ne int, full bool) {
	full = verifBound("C01.full") == 1
	kind = verifCase("profile", 0, 3)
	if full && kind == 0 {
		cc = verifCase("cc", 0, 15) // every CSRC count on the extension-less shapes
	} else {
		cc = verifPick("cc", verifCCq)
	}
	switch kind {
	case 0:
		ne = 0
	case 3:
		ne = 1
	default:
		ne = verifCase("next", 0, verifBound("C01.maxext"))
	}
	return
}

func VerifC01Packet() {
	cc, kind, ne, full := verifC01Shape()
	var p Packet
	verifFixedFields(&p.Header, cc)
	m := verifSetExtensions(&p.Header, kind, ne, full && ne <= 1)
	if full && kind == 0 {
		p.Payload = verifBytes("payload", verifCase("plen", 0, verifBound("C01.maxpayload")))
	} else {
		p.Payload = verifBytes("payload", verifPick("plen", verifPlenq))
	}
	pad := verifPick("pad", verifPadq)
	p.PaddingSize = uint8(pad)
	p.Padding = pad != 0

	size := p.MarshalSize()
	raw, err := p.Marshal()
	verifAssert("C01.marshal-noerr", err == nil)
	verifAssert("C01.marshal-size", len(raw) == size)

	var q Packet
	err = q.Unmarshal(raw)
	verifAssert("C01.unmarshal-noerr", err == nil)
	verifHeaderEqual("C01.pkt", &q.Header, &p.Header, &m)
	verifAssert("C01.payload", verifEqBytes(q.Payload, p.Payload))
	verifAssert("C01.padsize", q.PaddingSize == p.PaddingSize)
	verifCover("C01.packet.end")
	if kind == 1 {
		verifCover("C01.packet.onebyte")
	}
	if kind == 2 {
		verifCover("C01.packet.twobyte")
	}
	if kind == 3 {
		verifCover("C01.packet.legacy")
	}
}

func VerifC01Header() {
	cc, kind, ne, full := verifC01Shape()
	var h Header
	verifFixedFields(&h, cc)
	h.Padding = verifBool("padding")
	m := verifSetExtensions(&h, kind, ne, full && ne <= 1)
	size := h.MarshalSize()
	raw, err := h.Marshal()
	verifAssert("C01.h.marshal-noerr", err == nil)
	verifAssert("C01.h.marshal-size", len(raw) == size)
	var g Header
	n, err := g.Unmarshal(raw)
	verifAssert("C01.h.unmarshal-noerr", err == nil)
	verifAssert("C01.h.n", n == size)
	verifHeaderEqual("C01.hdr", &g, &h, &m)
	verifCover("C01.header.end")
}

// every padding size 0..255 (symbolic), minimal header
func VerifC01Padding() {
	var p Packet
	verifFixedFields(&p.Header, 0)
	p.Payload = verifBytes("payload", verifCase("plen", 0, 2))
	p.PaddingSize = verifU8("pad")
	p.Padding = p.PaddingSize != 0
	m := verifExtModel{}
	size := p.MarshalSize()
	raw, err := p.Marshal()
	verifAssert("C01.pad.marshal-noerr", err == nil)
	verifAssert("C01.pad.marshal-size", len(raw) == size)
	var q Packet
	err = q.Unmarshal(raw)
	verifAssert("C01.pad.unmarshal-noerr", err == nil)
	verifHeaderEqual("C01.pad", &q.Header, &p.Header, &m)
	verifAssert("C01.pad.payload", verifEqBytes(q.Payload, p.Payload))
	verifAssert("C01.pad.padsize", q.PaddingSize == p.PaddingSize)
	if p.PaddingSize == 255 {
		verifCover("C01.pad.255")
	}
	verifCover("C01.pad.end")
}

// extension blocks in the upper range of the 16-bit length field (which counts
// 32-bit words: up to 262140 bytes), built through the public API
func VerifC01HugeExtension() {
	var p Packet
	verifFixedFields(&p.Header, 0)
	p.Extension = true
	var ids []uint8
	var want [][]byte
	if verifCase("form", 0, 1) == 0 {
		words := verifPick("words", []int{0x3FFF, 0x4000, 0x4001, 0xFFFF})
		p.ExtensionProfile = verifU16("profile")
		verifAssume(p.ExtensionProfile != 0xBEDE)
		verifAssume(p.ExtensionProfile != 0x1000)
		v := verifFiller("legacy", 4*words)
		verifAssert("C01.huge.set", p.SetExtension(0, v) == nil)
		ids, want = []uint8{0}, [][]byte{v}
	} else {
		// two-byte profile filled to 65532..65535 bytes: 255 elements of 2+255 bytes, the last one trimmed
		p.ExtensionProfile = 0x1000
		trim := verifCase("trim", 0, 3)
		for id := 1; id <= 255; id++ {
			n := 255
			if id == 255 {
				n -= trim
			}
			var v []byte
			if id == 1 || id == 255 {
				v = verifFiller("twobyte", n)
			} else {
				v = make([]byte, n)
				for k := range v {
					v[k] = uint8(id + k)
				}
			}
			verifAssert("C01.huge.set", p.SetExtension(uint8(id), v) == nil)
			ids, want = append(ids, uint8(id)), append(want, v)
		}
	}
	p.Payload = verifBytes("payload", 2)
	size := p.MarshalSize()
	raw, err := p.Marshal()
	verifAssert("C01.huge.marshal-noerr", err == nil)
	verifAssert("C01.huge.marshal-size", len(raw) == size)
	var q Packet
	verifAssert("C01.huge.unmarshal-noerr", q.Unmarshal(raw) == nil)
	got := q.GetExtensionIDs()
	verifAssert("C01.huge.id-count", len(got) == len(ids))
	for i := range ids {
		verifAssert("C01.huge.id", got[i] == ids[i])
		verifAssert("C01.huge.value", verifEqBytes(q.GetExtension(ids[i]), want[i]))
	}
	verifAssert("C01.huge.payload", verifEqBytes(q.Payload, p.Payload))
	var h Header
	n, err := h.Unmarshal(raw)
	verifAssert("C01.huge.header-size", err == nil && n == size-2 && n == p.Header.MarshalSize())
	verifCover("C01.huge.end")
}
