package rtp

import (
	"time"

	"github.com/pion/rtp/codecs"
)

// C06 — Packetizer emits a valid, MTU-bounded, correctly numbered packet train.
// Inductive step: the packetizer starts from an arbitrary state.

// verifFakePayloader is the Payloader contract as a nondeterministic stub:
// any number of fragments (bounded), any contents, each at most mtu bytes.
type verifFakePayloader struct {
	minFrags int // 0: the stub may also return no fragment at all (e.g. a payloader that only stashes the input)
	last     [][]byte
	full     bool // emit fragments of exactly mtu bytes (mtu is concrete then)
}

func (f *verifFakePayloader) Payload(mtu uint16, payload []byte) [][]byte {
	n := verifCase("nfrag", f.minFrags, verifBound("C06.maxfrags"))
	var out [][]byte
	for i := 0; i < n; i++ {
		l := verifPick("fraglen", []int{1, 0, 3}[:verifBound("C06.fraglens")]) // an empty fragment is a fragment too
		if f.full {
			l = int(mtu)
		}
		out = append(out, verifBytes("frag", l))
	}
	f.last = out
	return out
}

// verifRecPayloader records what a real payloader returned
type verifRecPayloader struct {
	inner Payloader
	last  [][]byte
	mtu   uint16
}

func (r *verifRecPayloader) Payload(mtu uint16, payload []byte) [][]byte {
	r.mtu = mtu
	r.last = r.inner.Payload(mtu, payload)
	return r.last
}

type verifState struct {
	rec   *verifRecPayloader
	p     *packetizer
	seq   *sequencer
	absID int
	nowNs int64
	mtu   uint16
	fake  *verifFakePayloader
	g711  bool
}

func verifC06Setup() *verifState {
	s := &verifState{}
	s.seq = &sequencer{sequenceNumber: verifU16("seq0"), rollOverCount: verifU64("roc0")}
	s.nowNs = verifI64("now")
	verifAssume(s.nowNs >= 0)
	verifAssume(s.nowNs < verifNTPEraEndNs)
	p := &packetizer{
		PayloadType: verifU8("pt"),
		SSRC:        verifU32("ssrc"),
		Sequencer:   s.seq,
		Timestamp:   verifU32("ts0"),
		ClockRate:   verifU32("clockrate"),
		timegen:     func() time.Time { return time.Unix(0, s.nowNs) },
	}
	verifAssume(p.PayloadType <= 127)
	switch verifCase("payloader", 0, 2) {
	case 0:
		s.fake = &verifFakePayloader{minFrags: 1 - verifCase("may-return-nothing", 0, 1)}
		p.Payloader = s.fake
		p.MTU = verifU16("mtu")
		verifAssume(p.MTU >= 64)
	case 1:
		// full-size fragments: concrete MTU so that the fragment length is mtu-12 exactly
		s.fake = &verifFakePayloader{full: true, minFrags: 1}
		p.Payloader = s.fake
		p.MTU = uint16(verifPick("mtu-concrete", []int{64, 77}))
	default:
		s.g711 = true
		s.rec = &verifRecPayloader{inner: &codecs.G711Payloader{}}
		p.Payloader = s.rec
		p.MTU = verifU16("mtu")
		verifAssume(p.MTU >= 64)
	}
	s.mtu = p.MTU
	if verifCase("abs-send-time", 0, 1) == 1 {
		s.absID = int(verifU8("abs-id"))
		verifAssume(s.absID >= 1)
		verifAssume(s.absID <= 14)
		p.EnableAbsSendTime(s.absID)
	}
	s.p = p
	return s
}

func verifC06Packetize(s *verifState, tag string) []*Packet {
	p := s.p
	var payload []byte
	if s.g711 {
		payload = verifBytes("payload", verifPick("plen", []int{1, 53, 70}))
	} else {
		payload = verifBytes("payload", 2)
	}
	samples := verifU32("samples")
	seq0, roc0, ts0 := s.seq.sequenceNumber, s.seq.rollOverCount, p.Timestamp
	pkts := p.Packetize(payload, samples)
	verifAssert(tag+".timestamp-advance", p.Timestamp == ts0+samples)
	var frags [][]byte
	if s.g711 {
		frags = s.rec.last
		verifAssert(tag+".budget-positive", s.rec.mtu >= 1 && s.rec.mtu <= s.mtu-12)
	} else {
		frags = s.fake.last
	}
	verifAssert(tag+".one-packet-per-fragment", len(pkts) == len(frags))
	wraps := uint64(0)
	for i, pk := range pkts {
		last := i == len(pkts)-1
		want := seq0 + 1 + uint16(i)
		if want == 0 {
			wraps++
		}
		verifAssert(tag+".seq", pk.SequenceNumber == want)
		verifAssert(tag+".ts", pk.Timestamp == ts0)
		verifAssert(tag+".ssrc", pk.SSRC == p.SSRC)
		verifAssert(tag+".pt", pk.PayloadType == p.PayloadType)
		verifAssert(tag+".version", pk.Version == 2)
		verifAssert(tag+".marker", pk.Marker == last)
		verifAssert(tag+".no-padding", !pk.Padding && pk.PaddingSize == 0)
		verifAssert(tag+".no-csrc", len(pk.CSRC) == 0)
		verifAssert(tag+".fragment", verifEqBytes(pk.Payload, frags[i]))
		if last && s.absID != 0 {
			verifAssert(tag+".abs-present", pk.Extension)
			wantExt, _ := NewAbsSendTimeExtension(time.Unix(0, s.nowNs)).Marshal()
			verifAssert(tag+".abs-value", verifEqBytes(pk.GetExtension(uint8(s.absID)), wantExt))
			verifAssert(tag+".abs-only", len(pk.GetExtensionIDs()) == 1)
			verifCover("C06.abs-send-time")
		} else {
			verifAssert(tag+".no-extension", !pk.Extension && len(pk.GetExtensionIDs()) == 0)
		}
		size := pk.MarshalSize()
		verifAssert(tag+".mtu", size <= int(s.mtu))
		raw, err := pk.Marshal()
		verifAssert(tag+".marshal", err == nil && len(raw) == size)
		var back Packet
		err = back.Unmarshal(raw)
		verifAssert(tag+".parse", err == nil)
		verifAssert(tag+".parse-seq", back.SequenceNumber == pk.SequenceNumber && back.Timestamp == pk.Timestamp && back.SSRC == pk.SSRC)
		verifAssert(tag+".parse-flags", back.Marker == pk.Marker && back.PayloadType == pk.PayloadType && back.Version == 2 && back.Extension == pk.Extension)
		verifAssert(tag+".parse-payload", verifEqBytes(back.Payload, pk.Payload))
		if pk.Extension {
			verifAssert(tag+".parse-ext", verifEqBytes(back.GetExtension(uint8(s.absID)), pk.GetExtension(uint8(s.absID))))
		}
	}
	verifAssert(tag+".sequencer-advanced", s.seq.sequenceNumber == seq0+uint16(len(pkts)))
	verifAssert(tag+".rollover", s.seq.rollOverCount == roc0+wraps)
	if wraps > 0 {
		verifCover("C06.seq-wrap")
	}
	if len(pkts) > 1 {
		verifCover("C06.multi")
	}
	return pkts
}

func VerifC06Train() {
	s := verifC06Setup()
	first := verifC06Packetize(s, "C06.first")
	var firstRaw [][]byte
	for _, pk := range first {
		raw, _ := pk.Marshal()
		firstRaw = append(firstRaw, raw)
	}
	if verifCase("second-call", 0, 1) == 1 {
		// the second train is sent at another instant
		s.nowNs = verifI64("now2")
		verifAssume(s.nowNs >= 0)
		verifAssume(s.nowNs < verifNTPEraEndNs)
		skip := verifU32("skip")
		ts := s.p.Timestamp
		s.p.SkipSamples(skip)
		verifAssert("C06.skip", s.p.Timestamp == ts+skip)
		if s.absID != 0 && verifCase("disable-abs-send-time", 0, 1) == 1 {
			// switching the extension off again must take effect
			s.p.EnableAbsSendTime(0)
			s.absID = 0
			verifCover("C06.abs-disabled-again")
		} else if s.absID == 0 && verifCase("enable-abs-send-time-late", 0, 1) == 1 {
			// switching the extension on after the first frame must be budgeted for
			s.absID = int(verifU8("abs-id-late"))
			verifAssume(s.absID >= 1)
			verifAssume(s.absID <= 14)
			s.p.EnableAbsSendTime(s.absID)
			verifCover("C06.abs-enabled-late")
		}
		verifC06Packetize(s, "C06.second")
		// the packets returned by the first call are the caller's: a later call does not change them
		for i, pk := range first {
			raw, err := pk.Marshal()
			verifAssert("C06.first-train-stable", err == nil && verifEqBytes(raw, firstRaw[i]))
		}
		verifCover("C06.second-call")
	}
	// padding continues the same sequence
	n := verifCase("npad", 0, 2)
	seq0, ts0 := s.seq.sequenceNumber, s.p.Timestamp
	pads := s.p.GeneratePadding(uint32(n))
	verifAssert("C06.pad.count", len(pads) == n)
	for i, pk := range pads {
		verifAssert("C06.pad.seq", pk.SequenceNumber == seq0+1+uint16(i))
		verifAssert("C06.pad.ts", pk.Timestamp == ts0)
		verifAssert("C06.pad.ssrc-pt", pk.SSRC == s.p.SSRC && pk.PayloadType == s.p.PayloadType && pk.Version == 2)
		raw, err := pk.Marshal()
		verifAssert("C06.pad.marshal", err == nil)
		var back Packet
		err = back.Unmarshal(raw)
		verifAssert("C06.pad.parse", err == nil)
		verifAssert("C06.pad.flag", back.Padding)
		verifAssert("C06.pad.only", len(back.Payload) == 0)
		verifAssert("C06.pad.size", int(back.PaddingSize) >= 1 && 12+int(back.PaddingSize) == len(raw))
		verifAssert("C06.pad.header", back.SequenceNumber == pk.SequenceNumber && back.Timestamp == ts0 && back.SSRC == s.p.SSRC && !back.Marker)
		verifCover("C06.padding")
	}
	verifAssert("C06.pad.timestamp-kept", s.p.Timestamp == ts0)
	// an empty payload yields nothing and consumes nothing
	seq1 := s.seq.sequenceNumber
	verifAssert("C06.empty", len(s.p.Packetize(nil, 5)) == 0 && s.seq.sequenceNumber == seq1)
	verifCover("C06.end")
}

// more padding packets than half the sequence space in one call
func VerifC06PaddingBurst() {
	// concrete start values: a symbolic one would fork at each of the 40000 numbers
	seq := &sequencer{sequenceNumber: uint16(verifPick("seq0", []int{100, 60000})), rollOverCount: verifU64("roc0")}
	p := &packetizer{PayloadType: verifU8("pt") & 0x7F, SSRC: verifU32("ssrc"), Sequencer: seq, Timestamp: verifU32("ts0"),
		MTU: uint16(verifPick("mtu", []int{64, 268, 1200})), Payloader: &verifFakePayloader{minFrags: 1},
		timegen: func() time.Time { return time.Unix(0, 0) }}
	s0, ts0 := seq.sequenceNumber, p.Timestamp
	burst := p.GeneratePadding(40000)
	verifAssert("C06.burst.count", len(burst) == 40000)
	if len(burst) == 40000 {
		verifAssert("C06.burst.first", burst[0].SequenceNumber == s0+1 && burst[0].Padding && burst[0].PaddingSize >= 1)
		verifAssert("C06.burst.last", burst[39999].SequenceNumber == s0+40000 && burst[39999].Timestamp == ts0 && burst[39999].SSRC == p.SSRC)
	}
	verifAssert("C06.burst.sequencer", seq.sequenceNumber == s0+40000)
	verifCover("C06.padding-burst")
}
