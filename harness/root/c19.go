package rtp

// C19 — Video Layers Allocation extension encodes per spec and round-trips.
// The oracle is an independent renderer of video-layers-allocation00.

type verifVLALayer struct {
	stream, spatial int
	rates           []int
	w, h, fps       int
}

func verifLeb(b []byte, v uint64) []byte {
	for {
		c := uint8(v & 0x7F)
		v >>= 7
		if v != 0 {
			b = append(b, c|0x80)
			continue
		}
		return append(b, c)
	}
}

func verifVLARender(rid, ns int, ls []verifVLALayer, hasRes bool) []byte {
	var masks [4]uint8
	for _, l := range ls {
		masks[l.stream] |= 1 << uint(l.spatial)
	}
	shared := true
	for i := 1; i < ns; i++ {
		if masks[i] != masks[0] {
			shared = false
		}
	}
	b0 := uint8(rid)<<6 | uint8(ns-1)<<4
	var out []byte
	if shared {
		out = append(out, b0|masks[0])
	} else {
		out = append(out, b0)
		for i := 0; i < ns; i += 2 {
			out = append(out, masks[i]<<4|masks[i+1]&0x0F) // masks[i+1] is 0 beyond ns (array of 4; ns<=4 so i+1<=3)
		}
	}
	// 2-bit temporal layer counts, four per byte, most significant first
	var cur uint8
	for i, l := range ls {
		cur |= uint8(len(l.rates)-1) << uint(2*(3-i%4))
		if i%4 == 3 || i == len(ls)-1 {
			out = append(out, cur)
			cur = 0
		}
	}
	for _, l := range ls {
		for _, r := range l.rates {
			out = verifLeb(out, uint64(r))
		}
	}
	if hasRes {
		for _, l := range ls {
			out = append(out, uint8((l.w-1)>>8), uint8(l.w-1), uint8((l.h-1)>>8), uint8(l.h-1), uint8(l.fps))
		}
	}
	return out
}

func verifVLABuild() (VLA, []verifVLALayer) {
	return verifVLABuildN(1, 4, verifBound("C19.minlayers"), verifBound("C19.maxlayers"))
}

func verifVLABuildN(nsLo, nsHi, kLo, kHi int) (VLA, []verifVLALayer) {
	ns := verifCase("streams", nsLo, nsHi)
	k := verifCase("layers", kLo, kHi)
	v := VLA{RTPStreamCount: ns}
	v.RTPStreamID = verifIntn("rid", ns)
	v.HasResolutionAndFramerate = verifCase("hasres", 0, 1) == 1
	var ls []verifVLALayer
	prev := -1
	maxtl := verifBound("C19.maxtl")
	if k > 1 {
		maxtl = verifBound("C19.maxtl-multi")
	}
	bits := uint(verifBound("C19.ratebits"))
	if k > 1 {
		bits = uint(verifBound("C19.ratebits-multi"))
	}
	for i := 0; i < k; i++ {
		// every k-subset of the 4*ns (stream, spatial) slots, in the mandated order
		slot := verifCase("slot", prev+1, 4*ns-(k-i))
		prev = slot
		l := verifVLALayer{stream: slot / 4, spatial: slot % 4}
		ntl := verifCase("tl", 1, maxtl)
		for j := 0; j < ntl; j++ {
			r := verifInt("kbps")
			verifAssume(r >= 0)
			verifAssume(r>>bits == 0)
			l.rates = append(l.rates, r)
		}
		sl := SpatialLayer{RTPStreamID: l.stream, SpatialID: l.spatial, TargetBitrates: l.rates}
		if v.HasResolutionAndFramerate {
			l.w, l.h, l.fps = int(verifU16("w"))+1, int(verifU16("h"))+1, int(verifU8("fps"))
			sl.Width, sl.Height, sl.Framerate = l.w, l.h, l.fps
		}
		ls = append(ls, l)
		v.ActiveSpatialLayer = append(v.ActiveSpatialLayer, sl)
	}
	return v, ls
}

func verifVLAEqual(tag string, got *VLA, want *VLA) {
	verifAssert(tag+".rid", got.RTPStreamID == want.RTPStreamID)
	verifAssert(tag+".count", got.RTPStreamCount == want.RTPStreamCount)
	verifAssert(tag+".hasres", got.HasResolutionAndFramerate == want.HasResolutionAndFramerate)
	verifAssert(tag+".layers", len(got.ActiveSpatialLayer) == len(want.ActiveSpatialLayer))
	for i := range want.ActiveSpatialLayer {
		g, w := &got.ActiveSpatialLayer[i], &want.ActiveSpatialLayer[i]
		verifAssert(tag+".stream", g.RTPStreamID == w.RTPStreamID)
		verifAssert(tag+".spatial", g.SpatialID == w.SpatialID)
		verifAssert(tag+".tl", len(g.TargetBitrates) == len(w.TargetBitrates))
		for j := range w.TargetBitrates {
			verifAssert(tag+".kbps", g.TargetBitrates[j] == w.TargetBitrates[j])
		}
		// without resolution records these are zero in the expected value
		verifAssert(tag+".w", g.Width == w.Width)
		verifAssert(tag+".h", g.Height == w.Height)
		verifAssert(tag+".fps", g.Framerate == w.Framerate)
	}
}

// five and six layers need a second #tl byte
func VerifC19ManyLayers() {
	v, ls := verifVLABuildN(2, 2, 5, verifBound("C19.manylayers"))
	verifC19RT(v, ls)
}

func VerifC19RoundTrip() {
	v, ls := verifVLABuild()
	verifC19RT(v, ls)
}

func verifC19RT(v VLA, ls []verifVLALayer) {
	want := verifVLARender(v.RTPStreamID, v.RTPStreamCount, ls, v.HasResolutionAndFramerate)
	raw, err := v.Marshal()
	verifAssert("C19.marshal-noerr", err == nil)
	verifAssert("C19.layout-size", len(raw) == len(want))
	verifAssert("C19.layout", verifEqBytes(raw, want))
	var fresh VLA
	n, err := fresh.Unmarshal(want)
	verifAssert("C19.unmarshal-noerr", err == nil)
	verifAssert("C19.unmarshal-all", n == len(want))
	verifVLAEqual("C19.fresh", &fresh, &v)
	// a receiver used for an earlier decode
	used := VLA{RTPStreamID: verifInt("pre.rid"), RTPStreamCount: verifInt("pre.count"), HasResolutionAndFramerate: verifBool("pre.hasres")}
	if pre := verifCase("pre.layers", 0, 2); pre > 0 {
		// layers of the earlier decode, every field set; the second variant leaves spare capacity behind
		used.ActiveSpatialLayer = make([]SpatialLayer, pre, 2*pre)
		for i := range used.ActiveSpatialLayer {
			tb := make([]int, 1, 4)
			tb[0] = verifInt("pre.kbps")
			used.ActiveSpatialLayer[i] = SpatialLayer{RTPStreamID: 3, SpatialID: 3 - i, TargetBitrates: tb, Width: 7, Height: 7, Framerate: 7}
		}
	}
	n, err = used.Unmarshal(want)
	verifAssert("C19.reuse-noerr", err == nil)
	verifAssert("C19.reuse-all", n == len(want))
	verifVLAEqual("C19.reuse", &used, &v)
	if len(ls) >= 5 {
		verifCover("C19.rt.second-tl-byte")
	}
	verifCover("C19.rt.end")
}

// every invalid-argument class is rejected
func VerifC19Rejects() {
	v := VLA{RTPStreamCount: 2, RTPStreamID: 0, ActiveSpatialLayer: []SpatialLayer{{RTPStreamID: 0, SpatialID: 0, TargetBitrates: []int{100}}, {RTPStreamID: 1, SpatialID: 2, TargetBitrates: []int{5, 6}}}}
	_, err := v.Marshal()
	verifAssert("C19.rej.baseline-valid", err == nil)
	x := verifInt("x")
	switch verifCase("class", 0, 6) {
	case 0:
		verifAssume(x <= 0 || x > 4)
		v.RTPStreamCount = x
	case 1:
		verifAssume(x < 0 || x >= 2)
		v.RTPStreamID = x
	case 2:
		verifAssume(x < 0 || x >= 2)
		v.ActiveSpatialLayer[1].RTPStreamID = x
	case 3:
		verifAssume(x < 0 || x >= 4)
		v.ActiveSpatialLayer[1].SpatialID = x
	case 4:
		v.ActiveSpatialLayer[1].RTPStreamID, v.ActiveSpatialLayer[1].SpatialID = 0, 0
	case 5:
		v.ActiveSpatialLayer[1].TargetBitrates = nil
	default:
		v.ActiveSpatialLayer[1].TargetBitrates = []int{1, 2, 3, 4, 5}
	}
	out, err := v.Marshal()
	verifAssert("C19.rej.error", err != nil)
	verifAssert("C19.rej.nobytes", len(out) == 0)
	verifCover("C19.rej.end")
}

// the decoder on arbitrary bytes
func VerifC19Decode() {
	size := verifCase("len", 0, verifBound("C19.declen"))
	in := verifBytes("in", size)
	var v VLA
	n, err := v.Unmarshal(in)
	verifAssert("C19.dec.n-nonneg", n >= 0)
	verifAssert("C19.dec.n-bounded", n <= size)
	if err == nil {
		verifAssert("C19.dec.count", v.RTPStreamCount >= 1 && v.RTPStreamCount <= 4)
		verifCover("C19.dec.accept")
	} else {
		verifCover("C19.dec.reject")
	}
}

// a bitrate field written as an over-long LEB128 (9 to 11 bytes with the
// continuation bit forced, value bits symbolic): never a panic, whatever is decided
func VerifC19LongLeb128() {
	k := verifCase("continuation-bytes", 8, 11)
	in := []byte{0x01, 0x00} // one stream, one spatial layer, one temporal layer
	for i := 0; i < k; i++ {
		in = append(in, 0x80|verifU8("leb.byte"))
	}
	in = append(in, verifU8("leb.last")&0x7F)
	in = append(in, verifBytes("tail", verifCase("tail", 0, 1))...)
	var v VLA
	n, err := v.Unmarshal(in)
	if err == nil {
		verifAssert("C19.longleb.n", n >= 3 && n <= len(in))
		verifAssert("C19.longleb.layers", len(v.ActiveSpatialLayer) == 1 && len(v.ActiveSpatialLayer[0].TargetBitrates) == 1)
		verifCover("C19.longleb.accepted")
	} else {
		verifCover("C19.longleb.rejected")
	}
	verifCover("C19.longleb.end")
}

// the empty subset of layer slots: whatever bytes Marshal chooses for an
// allocation without active layers (the specification's shared-mask form cannot
// express it), Unmarshal consumes them all and yields an equal value
func VerifC19NoActiveLayers() {
	ns := verifCase("streams", 1, 4)
	v := VLA{RTPStreamCount: ns, RTPStreamID: verifIntn("rid", ns)}
	raw, err := v.Marshal()
	if err != nil {
		verifCover("C19.empty.refused")
		return
	}
	var got VLA
	if verifCase("used", 0, 1) == 1 {
		got = VLA{RTPStreamID: 3, RTPStreamCount: 4, HasResolutionAndFramerate: true,
			ActiveSpatialLayer: []SpatialLayer{{RTPStreamID: 1, SpatialID: 1, TargetBitrates: []int{5}, Width: 7, Height: 7, Framerate: 7}}}
	}
	n, err := got.Unmarshal(raw)
	verifAssert("C19.empty.decodes", err == nil)
	verifAssert("C19.empty.consumes-all", n == len(raw))
	verifAssert("C19.empty.equal", got.RTPStreamID == v.RTPStreamID && got.RTPStreamCount == ns && len(got.ActiveSpatialLayer) == 0 && !got.HasResolutionAndFramerate)
	verifCover("C19.empty.accepted")
}
