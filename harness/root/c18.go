package rtp

import "time"

// C18 — NTP time mapping and send-time estimation recover the original instant.

const (
	verifNTPEraEndNs = 2085978496 * 1000000000 // 2036-02-07 06:28:16 UTC in Unix ns
	verifResolution  = 3815                    // 2^-18 s in ns, rounded up
)

func verifInstant(name string) (time.Time, int64) {
	ns := verifI64(name)
	verifAssume(ns >= 0)
	verifAssume(ns < verifNTPEraEndNs)
	return time.Unix(0, ns), ns
}

func VerifC18CaptureTime() {
	t, ns := verifInstant("t")
	got := NewAbsCaptureTimeExtension(t).CaptureTime().UnixNano()
	d := got - ns
	verifAssert("C18.capture.lo", d >= -1)
	verifAssert("C18.capture.hi", d <= 1)
	verifCover("C18.capture.end")
}

func VerifC18ClockOffset() {
	t, _ := verifInstant("t")
	off := verifI64("offset")
	const lim = int64(1) << 31 * 1000000000
	verifAssume(off > -lim)
	verifAssume(off < lim)
	e := NewAbsCaptureTimeExtensionWithCaptureClockOffset(t, time.Duration(off))
	r := e.EstimatedCaptureClockOffsetDuration()
	verifAssert("C18.offset.present", r != nil)
	d := int64(*r) - off
	verifAssert("C18.offset.lo", d >= -1)
	verifAssert("C18.offset.hi", d <= 1)
	if off < 0 {
		verifAssert("C18.offset.sign-neg", int64(*r) <= 0)
		verifCover("C18.offset.negative")
	} else {
		verifAssert("C18.offset.sign-pos", int64(*r) >= 0)
		verifCover("C18.offset.positive")
	}
	// absent offset stays absent
	verifAssert("C18.offset.absent", NewAbsCaptureTimeExtension(t).EstimatedCaptureClockOffsetDuration() == nil)
}

func VerifC18Estimate() {
	send, sns := verifInstant("send")
	delay := verifI64("delay")
	verifAssume(delay >= 0)
	// every whole nanosecond below 64 s - 2^-18 s = 63 999 996 185.30 ns
	verifAssume(delay <= 63999996185)
	rns := sns + delay // the receive instant may lie up to 64 s past the era end
	ext := NewAbsSendTimeExtension(send)
	verifAssert("C18.estimate.24bit", ext.Timestamp>>24 == ext.Timestamp>>24&0xFFFFFFFFFF) // Timestamp is a plain 38-bit-shifted NTP value
	// only the 24-bit wire field reaches the receiver
	wire := AbsSendTimeExtension{Timestamp: ext.Timestamp & 0xFFFFFF}
	est := wire.Estimate(time.Unix(0, rns)).UnixNano()
	d := est - sns
	verifAssert("C18.estimate.lo", d >= -verifResolution)
	verifAssert("C18.estimate.hi", d <= verifResolution)
	if (ext.Timestamp&0xFFFFFF)<<14 > toNtpTime(time.Unix(0, rns))&0x3FFFFFFFFF {
		verifCover("C18.estimate.wrapped")
	}
	verifCover("C18.estimate.end")
}
