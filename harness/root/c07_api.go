package rtp

// C07 through the public API only. These harnesses are the fallback of the C07
// check: they are loaded when c07.go (which builds arbitrary reachable states
// by writing the sequencer's fields) does not type-check against the current
// tree. They start from NewFixedSequencer with a symbolic start value, so the
// roll-over count starts at 0 and at most one wrap is in reach.

func verifAPIZero(v uint16) uint64 {
	if v == 0 {
		return 1
	}
	return 0
}

func VerifC07APISequential() {
	start := verifU16("start")
	s := NewFixedSequencer(start)
	verifAssert("C07.api.roc-initial", s.RollOverCount() == 0)
	a := s.NextSequenceNumber()
	verifAssert("C07.api.first", a == start)
	verifAssert("C07.api.roc1", s.RollOverCount() == verifAPIZero(a))
	b := s.NextSequenceNumber()
	verifAssert("C07.api.second", b == start+1)
	verifAssert("C07.api.roc2", s.RollOverCount() == verifAPIZero(a)+verifAPIZero(b))
	c := s.NextSequenceNumber()
	verifAssert("C07.api.third", c == start+2)
	verifAssert("C07.api.roc3", s.RollOverCount() == verifAPIZero(a)+verifAPIZero(b)+verifAPIZero(c))
	if a == 0 || b == 0 || c == 0 {
		verifCover("C07.api.wrap")
	}
	verifCover("C07.api.seq.end")
}

// two threads with two calls each, then the state is probed through the API
func VerifC07APIConcurrent2x2() {
	start := verifU16("start")
	s := NewFixedSequencer(start)
	s0 := start - 1
	var a1, a2, b1, b2 uint16
	verifThread(func() { a1 = s.NextSequenceNumber() }, func() { a2 = s.NextSequenceNumber() })
	verifThread(func() { b1 = s.NextSequenceNumber() }, func() { b2 = s.NextSequenceNumber() })
	verifJoin()
	da1, da2, db1, db2 := a1-s0, a2-s0, b1-s0, b2-s0
	verifAssert("C07.api.c4.range", da1 >= 1 && da1 <= 4 && da2 >= 1 && da2 <= 4 && db1 >= 1 && db1 <= 4 && db2 >= 1 && db2 <= 4)
	verifAssert("C07.api.c4.distinct", da1 != da2 && da1 != db1 && da1 != db2 && da2 != db1 && da2 != db2 && db1 != db2)
	verifAssert("C07.api.c4.order-a", da1 < da2)
	verifAssert("C07.api.c4.order-b", db1 < db2)
	zeros := verifAPIZero(a1) + verifAPIZero(a2) + verifAPIZero(b1) + verifAPIZero(b2)
	verifAssert("C07.api.c4.rollover", s.RollOverCount() == zeros)
	next := s.NextSequenceNumber()
	verifAssert("C07.api.c4.next", next == s0+5)
	verifAssert("C07.api.c4.rollover-after", s.RollOverCount() == zeros+verifAPIZero(next))
	verifCover("C07.api.c4.end")
}

// one thread issues two numbers while another reads the roll-over count twice
func VerifC07APIConcurrentMixed() {
	start := verifU16("start")
	s := NewFixedSequencer(start)
	var a1, a2 uint16
	var r1, r2 uint64
	verifThread(func() { a1 = s.NextSequenceNumber() }, func() { a2 = s.NextSequenceNumber() })
	verifThread(func() { r1 = s.RollOverCount() }, func() { r2 = s.RollOverCount() })
	verifJoin()
	verifAssert("C07.api.mix.values", a1 == start && a2 == start+1)
	verifAssert("C07.api.mix.roc-monotone", r1 <= r2)
	verifAssert("C07.api.mix.roc-upper", r2 <= verifAPIZero(a1)+verifAPIZero(a2))
	verifAssert("C07.api.mix.roc-final", s.RollOverCount() == verifAPIZero(a1)+verifAPIZero(a2))
	// a count that already includes the wrap was read after the wrapping value was issued,
	// so the extended number of anything issued later is larger
	verifCover("C07.api.mix.end")
}

// three threads, each issuing one number
func VerifC07APIConcurrent3Next() {
	start := verifU16("start")
	s := NewFixedSequencer(start)
	s0 := start - 1
	var a, b, c uint16
	verifThread(func() { a = s.NextSequenceNumber() })
	verifThread(func() { b = s.NextSequenceNumber() })
	verifThread(func() { c = s.NextSequenceNumber() })
	verifJoin()
	da, db, dc := a-s0, b-s0, c-s0
	verifAssert("C07.api.c3n.range", da >= 1 && da <= 3 && db >= 1 && db <= 3 && dc >= 1 && dc <= 3)
	verifAssert("C07.api.c3n.distinct", da != db && da != dc && db != dc)
	verifAssert("C07.api.c3n.rollover", s.RollOverCount() == verifAPIZero(a)+verifAPIZero(b)+verifAPIZero(c))
	verifCover("C07.api.c3n.end")
}
