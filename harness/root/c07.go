package rtp

// C07 — Sequencer is a linearizable 16-bit counter with exact rollover count.

type verifRand struct{}

func (verifRand) Intn(n int) int                            { return verifIntn("rand.intn", n) }
func (verifRand) Uint32() uint32                            { return verifU32("rand.u32") }
func (verifRand) Uint64() uint64                            { return verifU64("rand.u64") }
func (verifRand) GenerateString(n int, runes string) string { return "" }

func verifZero(v uint16) uint64 {
	if v == 0 {
		return 1
	}
	return 0
}

func VerifC07Sequential() {
	globalMathRandomGenerator = verifRand{}
	s0, roc0 := verifU16("seq0"), verifU64("roc0")
	s := &sequencer{sequenceNumber: s0, rollOverCount: roc0}
	verifAssert("C07.seq.roc-initial", s.RollOverCount() == roc0)
	a := s.NextSequenceNumber()
	verifAssert("C07.seq.first", a == s0+1)
	verifAssert("C07.seq.roc1", s.RollOverCount() == roc0+verifZero(a))
	b := s.NextSequenceNumber()
	verifAssert("C07.seq.second", b == s0+2)
	verifAssert("C07.seq.roc2", s.RollOverCount() == roc0+verifZero(a)+verifZero(b))
	// the extended sequence number strictly increases in issue order
	if roc0 < 1<<40 {
		ea := (roc0+verifZero(a))<<16 | uint64(a)
		eb := s.RollOverCount()<<16 | uint64(b)
		verifAssert("C07.seq.extended-increases", eb == ea+1)
	}
	if a == 0 || b == 0 {
		verifCover("C07.seq.wrap")
	}

	start := verifU16("fixed.start")
	f := NewFixedSequencer(start)
	verifAssert("C07.fixed.first", f.NextSequenceNumber() == start)
	verifAssert("C07.fixed.roc", f.RollOverCount() == verifZero(start))
	verifAssert("C07.fixed.second", f.NextSequenceNumber() == start+1)

	r := NewRandomSequencer()
	first := r.NextSequenceNumber()
	verifAssert("C07.random.below-2^15", first < 1<<15)
	verifAssert("C07.random.roc", r.RollOverCount() == 0)
	verifCover("C07.seq.end")
}

// two threads, one NextSequenceNumber each, any interleaving, any start state
func VerifC07Concurrent2x1() {
	globalMathRandomGenerator = verifRand{}
	s0, roc0 := verifU16("seq0"), verifU64("roc0")
	s := &sequencer{sequenceNumber: s0, rollOverCount: roc0}
	var a, b uint16
	verifThread(func() { a = s.NextSequenceNumber() })
	verifThread(func() { b = s.NextSequenceNumber() })
	verifJoin()
	verifAssert("C07.c2.no-duplicate", a != b)
	verifAssert("C07.c2.no-gap", (a == s0+1 && b == s0+2) || (a == s0+2 && b == s0+1))
	verifAssert("C07.c2.state", s.sequenceNumber == s0+2)
	verifAssert("C07.c2.rollover", s.rollOverCount == roc0+verifZero(a)+verifZero(b))
	if a == s0+2 {
		verifCover("C07.c2.second-thread-first")
	}
	if a == s0+1 {
		verifCover("C07.c2.first-thread-first")
	}
	verifCover("C07.c2.end")
}

// three threads: two issue numbers, one reads the roll-over count in between
func VerifC07Concurrent3() {
	globalMathRandomGenerator = verifRand{}
	s0, roc0 := verifU16("seq0"), verifU64("roc0")
	s := &sequencer{sequenceNumber: s0, rollOverCount: roc0}
	var a, b uint16
	var r uint64
	verifThread(func() { a = s.NextSequenceNumber() })
	verifThread(func() { b = s.NextSequenceNumber() })
	verifThread(func() { r = s.RollOverCount() })
	verifJoin()
	verifAssert("C07.c3.values", (a == s0+1 && b == s0+2) || (a == s0+2 && b == s0+1))
	verifAssert("C07.c3.rollover-final", s.rollOverCount == roc0+verifZero(a)+verifZero(b))
	// the count read concurrently lies between the initial and the final count
	verifAssert("C07.c3.roc-lower", r >= roc0 || roc0 > 1<<63)
	verifAssert("C07.c3.roc-upper", r <= s.rollOverCount || roc0 > 1<<63)
	verifCover("C07.c3.end")
}

// two threads with two operations each: per-thread order is preserved
func VerifC07Concurrent2x2() {
	globalMathRandomGenerator = verifRand{}
	s0, roc0 := verifU16("seq0"), verifU64("roc0")
	s := &sequencer{sequenceNumber: s0, rollOverCount: roc0}
	var a1, a2, b1, b2 uint16
	verifThread(func() { a1 = s.NextSequenceNumber() }, func() { a2 = s.NextSequenceNumber() })
	verifThread(func() { b1 = s.NextSequenceNumber() }, func() { b2 = s.NextSequenceNumber() })
	verifJoin()
	// each of the next four values exactly once
	da1, da2, db1, db2 := a1-s0, a2-s0, b1-s0, b2-s0
	verifAssert("C07.c4.range", da1 >= 1 && da1 <= 4 && da2 >= 1 && da2 <= 4 && db1 >= 1 && db1 <= 4 && db2 >= 1 && db2 <= 4)
	verifAssert("C07.c4.distinct", da1 != da2 && da1 != db1 && da1 != db2 && da2 != db1 && da2 != db2 && db1 != db2)
	// real-time order within a thread implies value order
	verifAssert("C07.c4.order-a", da1 < da2)
	verifAssert("C07.c4.order-b", db1 < db2)
	verifAssert("C07.c4.state", s.sequenceNumber == s0+4)
	verifAssert("C07.c4.rollover", s.rollOverCount == roc0+verifZero(a1)+verifZero(a2)+verifZero(b1)+verifZero(b2))
	if da1 == 1 && db1 == 2 && da2 == 3 {
		verifCover("C07.c4.interleaved")
	}
	verifCover("C07.c4.end")
}

// three threads, each issuing one number
func VerifC07Concurrent3Next() {
	globalMathRandomGenerator = verifRand{}
	s0, roc0 := verifU16("seq0"), verifU64("roc0")
	s := &sequencer{sequenceNumber: s0, rollOverCount: roc0}
	var a, b, c uint16
	verifThread(func() { a = s.NextSequenceNumber() })
	verifThread(func() { b = s.NextSequenceNumber() })
	verifThread(func() { c = s.NextSequenceNumber() })
	verifJoin()
	da, db, dc := a-s0, b-s0, c-s0
	verifAssert("C07.c3n.range", da >= 1 && da <= 3 && db >= 1 && db <= 3 && dc >= 1 && dc <= 3)
	verifAssert("C07.c3n.distinct", da != db && da != dc && db != dc)
	verifAssert("C07.c3n.state", s.sequenceNumber == s0+3)
	verifAssert("C07.c3n.rollover", s.rollOverCount == roc0+verifZero(a)+verifZero(b)+verifZero(c))
	if dc == 1 && da == 3 {
		verifCover("C07.c3n.reversed")
	}
	verifCover("C07.c3n.end")
}

// one thread issues two numbers while another reads the roll-over count twice:
// the count never decreases and stays within the zeros issued
func VerifC07ConcurrentMixed() {
	globalMathRandomGenerator = verifRand{}
	s0, roc0 := verifU16("seq0"), verifU64("roc0")
	verifAssume(roc0 < 1<<62)
	s := &sequencer{sequenceNumber: s0, rollOverCount: roc0}
	var a1, a2 uint16
	var r1, r2 uint64
	verifThread(func() { a1 = s.NextSequenceNumber() }, func() { a2 = s.NextSequenceNumber() })
	verifThread(func() { r1 = s.RollOverCount() }, func() { r2 = s.RollOverCount() })
	verifJoin()
	verifAssert("C07.mix.values", a1 == s0+1 && a2 == s0+2)
	verifAssert("C07.mix.roc-monotone", r1 <= r2)
	verifAssert("C07.mix.roc-lower", r1 >= roc0)
	verifAssert("C07.mix.roc-upper", r2 <= roc0+verifZero(a1)+verifZero(a2))
	verifAssert("C07.mix.roc-final", s.rollOverCount == roc0+verifZero(a1)+verifZero(a2))
	verifCover("C07.mix.end")
}

// one thread issues a single number while another issues four in a row: enough
// room for an optimistic increment to be overtaken several times
func VerifC07Concurrent1x4() {
	globalMathRandomGenerator = verifRand{}
	s0, roc0 := verifU16("seq0"), verifU64("roc0")
	s := &sequencer{sequenceNumber: s0, rollOverCount: roc0}
	var a uint16
	var b [4]uint16
	verifThread(func() { a = s.NextSequenceNumber() })
	verifThread(func() { b[0] = s.NextSequenceNumber() }, func() { b[1] = s.NextSequenceNumber() },
		func() { b[2] = s.NextSequenceNumber() }, func() { b[3] = s.NextSequenceNumber() })
	verifJoin()
	da := a - s0
	verifAssert("C07.c14.range", da >= 1 && da <= 5)
	zeros := verifZero(a)
	for i := range b {
		d := b[i] - s0
		// the second thread's values are the remaining ones, in its program order
		want := uint16(i + 1)
		if da <= want {
			want++
		}
		verifAssert("C07.c14.values", d == want)
		zeros += verifZero(b[i])
	}
	verifAssert("C07.c14.state", s.sequenceNumber == s0+5)
	verifAssert("C07.c14.rollover", s.rollOverCount == roc0+zeros)
	if da == 3 {
		verifCover("C07.c14.in-the-middle")
	}
	verifCover("C07.c14.end")
}

// a thread that issues a number and then reads the roll-over count sees every
// zero issued up to its own number: value and count advance together
func VerifC07ConcurrentNextThenCount() {
	globalMathRandomGenerator = verifRand{}
	s0, roc0 := verifU16("seq0"), verifU64("roc0")
	verifAssume(roc0 < 1<<62)
	s := &sequencer{sequenceNumber: s0, rollOverCount: roc0}
	var a, b uint16
	var r uint64
	verifThread(func() { a = s.NextSequenceNumber() })
	verifThread(func() { b = s.NextSequenceNumber() }, func() { r = s.RollOverCount() })
	verifJoin()
	da, db := a-s0, b-s0
	verifAssert("C07.ntc.values", (da == 1 && db == 2) || (da == 2 && db == 1))
	low := roc0 + verifZero(b)
	if da < db {
		low += verifZero(a) // a was issued before b, so its wrap is counted too
	}
	verifAssert("C07.ntc.count-includes-issued-zeros", r >= low)
	verifAssert("C07.ntc.count-upper", r <= roc0+verifZero(a)+verifZero(b))
	if a == 0 && db == 2 {
		verifCover("C07.ntc.wrap-then-read")
	}
	verifCover("C07.ntc.end")
}

// the first calls on a random sequencer may be concurrent too
func VerifC07RandomConcurrent() {
	globalMathRandomGenerator = verifRand{}
	s := NewRandomSequencer()
	var a, b uint16
	verifThread(func() { a = s.NextSequenceNumber() })
	verifThread(func() { b = s.NextSequenceNumber() })
	verifJoin()
	verifAssert("C07.rc.consecutive", a == b+1 || b == a+1)
	verifAssert("C07.rc.start-below-2^15", a <= 1<<15 && b <= 1<<15 && (a < 1<<15 || b < 1<<15))
	verifAssert("C07.rc.roc", s.RollOverCount() == 0)
	next := s.NextSequenceNumber()
	verifAssert("C07.rc.next", (a > b && next == a+1) || (b > a && next == b+1))
	verifCover("C07.rc.end")
}
