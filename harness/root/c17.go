package rtp

// C17 — fixed-size header-extension payload codecs are bit-exact and total.
// Oracles are the bit layouts of RFC 6464 (audio level), the transport-wide-cc
// draft, the playout-delay, abs-send-time and abs-capture-time specifications,
// written here independently of the library.

func VerifC17AudioLevelEncode() {
	level := verifU8("level")
	voice := verifBool("voice")
	b, err := AudioLevelExtension{Level: level, Voice: voice}.Marshal()
	if level > 127 {
		verifAssert("C17.al.reject", err != nil)
		verifAssert("C17.al.reject-nobytes", len(b) == 0)
		verifCover("C17.al.reject")
		return
	}
	verifAssert("C17.al.noerr", err == nil)
	verifAssert("C17.al.len", len(b) == 1)
	exp := level
	if voice {
		exp |= 0x80
	}
	verifAssert("C17.al.bits", b[0] == exp)
	r := AudioLevelExtension{Level: verifU8("pre.level"), Voice: verifBool("pre.voice")}
	err = r.Unmarshal(b)
	verifAssert("C17.al.rt-noerr", err == nil)
	verifAssert("C17.al.rt-level", r.Level == level)
	verifAssert("C17.al.rt-voice", r.Voice == voice)
	verifCover("C17.al.ok")
}

func VerifC17AudioLevelDecode() {
	n := verifCase("len", 0, 3)
	in := verifBytes("in", n)
	preL, preV := verifU8("pre.level"), verifBool("pre.voice")
	r := AudioLevelExtension{Level: preL, Voice: preV}
	err := r.Unmarshal(in)
	if n < 1 {
		verifAssert("C17.al.short", err != nil)
		verifCover("C17.al.short")
		return
	}
	verifAssert("C17.al.dec-noerr", err == nil)
	verifAssert("C17.al.dec-level", r.Level == in[0]&0x7F)
	verifAssert("C17.al.dec-voice", r.Voice == (in[0]>>7 == 1))
	verifCover("C17.al.dec")
}

func VerifC17TransportCC() {
	seq := verifU16("seq")
	b, err := TransportCCExtension{TransportSequence: seq}.Marshal()
	verifAssert("C17.tcc.noerr", err == nil)
	verifAssert("C17.tcc.len", len(b) == 2)
	verifAssert("C17.tcc.hi", b[0] == uint8(seq>>8))
	verifAssert("C17.tcc.lo", b[1] == uint8(seq))
	r := TransportCCExtension{TransportSequence: verifU16("pre.seq")}
	err = r.Unmarshal(b)
	verifAssert("C17.tcc.rt-noerr", err == nil)
	verifAssert("C17.tcc.rt", r.TransportSequence == seq)
	verifCover("C17.tcc.enc")

	n := verifCase("len", 0, 4)
	in := verifBytes("in", n)
	r2 := TransportCCExtension{TransportSequence: verifU16("pre2.seq")}
	err = r2.Unmarshal(in)
	if n < 2 {
		verifAssert("C17.tcc.short", err != nil)
		verifCover("C17.tcc.short")
		return
	}
	verifAssert("C17.tcc.dec-noerr", err == nil)
	verifAssert("C17.tcc.dec", r2.TransportSequence == uint16(in[0])<<8|uint16(in[1]))
	verifCover("C17.tcc.dec")
}

func VerifC17PlayoutDelayEncode() {
	min, max := verifU16("min"), verifU16("max")
	b, err := PlayoutDelayExtension{MinDelay: min, MaxDelay: max}.Marshal()
	if min > 4095 || max > 4095 {
		verifAssert("C17.pd.reject", err != nil)
		verifAssert("C17.pd.reject-nobytes", len(b) == 0)
		verifCover("C17.pd.reject")
		return
	}
	verifAssert("C17.pd.noerr", err == nil)
	verifAssert("C17.pd.len", len(b) == 3)
	// 12 bits MIN, 12 bits MAX, network order
	word := uint32(min)<<12 | uint32(max)
	verifAssert("C17.pd.b0", b[0] == uint8(word>>16))
	verifAssert("C17.pd.b1", b[1] == uint8(word>>8))
	verifAssert("C17.pd.b2", b[2] == uint8(word))
	r := PlayoutDelayExtension{MinDelay: verifU16("pre.min"), MaxDelay: verifU16("pre.max")}
	err = r.Unmarshal(b)
	verifAssert("C17.pd.rt-noerr", err == nil)
	verifAssert("C17.pd.rt-min", r.MinDelay == min)
	verifAssert("C17.pd.rt-max", r.MaxDelay == max)
	verifCover("C17.pd.ok")
}

func VerifC17PlayoutDelayDecode() {
	n := verifCase("len", 0, 5)
	in := verifBytes("in", n)
	r := PlayoutDelayExtension{MinDelay: verifU16("pre.min"), MaxDelay: verifU16("pre.max")}
	err := r.Unmarshal(in)
	if n < 3 {
		verifAssert("C17.pd.short", err != nil)
		verifCover("C17.pd.short")
		return
	}
	verifAssert("C17.pd.dec-noerr", err == nil)
	word := uint32(in[0])<<16 | uint32(in[1])<<8 | uint32(in[2])
	verifAssert("C17.pd.dec-min", r.MinDelay == uint16(word>>12))
	verifAssert("C17.pd.dec-max", r.MaxDelay == uint16(word&0xFFF))
	verifCover("C17.pd.dec")
}

func VerifC17AbsSendTime() {
	ts := verifU64("ts")
	b, err := AbsSendTimeExtension{Timestamp: ts}.Marshal()
	verifAssert("C17.ast.noerr", err == nil)
	verifAssert("C17.ast.len", len(b) == 3)
	verifAssert("C17.ast.b0", b[0] == uint8(ts>>16))
	verifAssert("C17.ast.b1", b[1] == uint8(ts>>8))
	verifAssert("C17.ast.b2", b[2] == uint8(ts))
	r := AbsSendTimeExtension{Timestamp: verifU64("pre.ts")}
	err = r.Unmarshal(b)
	verifAssert("C17.ast.rt-noerr", err == nil)
	// identity on every in-range (24-bit) value; out-of-range values keep their low 24 bits
	verifAssert("C17.ast.rt", r.Timestamp == ts&0xFFFFFF)
	verifCover("C17.ast.enc")

	n := verifCase("len", 0, 5)
	in := verifBytes("in", n)
	r2 := AbsSendTimeExtension{Timestamp: verifU64("pre2.ts")}
	err = r2.Unmarshal(in)
	if n < 3 {
		verifAssert("C17.ast.short", err != nil)
		verifCover("C17.ast.short")
		return
	}
	verifAssert("C17.ast.dec-noerr", err == nil)
	verifAssert("C17.ast.dec", r2.Timestamp == uint64(in[0])<<16|uint64(in[1])<<8|uint64(in[2]))
	verifCover("C17.ast.dec")
}

func verifBE64(b []byte) uint64 {
	return uint64(b[0])<<56 | uint64(b[1])<<48 | uint64(b[2])<<40 | uint64(b[3])<<32 |
		uint64(b[4])<<24 | uint64(b[5])<<16 | uint64(b[6])<<8 | uint64(b[7])
}

func VerifC17AbsCaptureTimeEncode() {
	ts := verifU64("ts")
	withOff := verifCase("withOffset", 0, 1) == 1
	off := verifI64("off")
	e := AbsCaptureTimeExtension{Timestamp: ts}
	if withOff {
		e.EstimatedCaptureClockOffset = &off
	}
	b, err := e.Marshal()
	verifAssert("C17.act.noerr", err == nil)
	if withOff {
		verifAssert("C17.act.len16", len(b) == 16)
		verifAssert("C17.act.off-bits", verifBE64(b[8:16]) == uint64(off))
	} else {
		verifAssert("C17.act.len8", len(b) == 8)
	}
	verifAssert("C17.act.ts-bits", verifBE64(b[0:8]) == ts)
	// decode into an arbitrary previously used receiver
	preOff := verifI64("pre.off")
	r := AbsCaptureTimeExtension{Timestamp: verifU64("pre.ts")}
	if verifCase("pre.withOffset", 0, 1) == 1 {
		r.EstimatedCaptureClockOffset = &preOff
	}
	err = r.Unmarshal(b)
	verifAssert("C17.act.rt-noerr", err == nil)
	verifAssert("C17.act.rt-ts", r.Timestamp == ts)
	if withOff {
		verifAssert("C17.act.rt-off-present", r.EstimatedCaptureClockOffset != nil)
		verifAssert("C17.act.rt-off", *r.EstimatedCaptureClockOffset == off)
		verifCover("C17.act.ok16")
	} else {
		verifAssert("C17.act.rt-off-absent", r.EstimatedCaptureClockOffset == nil)
		verifCover("C17.act.ok8")
	}
}

func VerifC17AbsCaptureTimeDecode() {
	n := verifCase("len", 0, 18)
	in := verifBytes("in", n)
	preOff := verifI64("pre.off")
	r := AbsCaptureTimeExtension{Timestamp: verifU64("pre.ts")}
	if verifCase("pre.withOffset", 0, 1) == 1 {
		r.EstimatedCaptureClockOffset = &preOff
	}
	err := r.Unmarshal(in)
	if n < 8 {
		verifAssert("C17.act.short", err != nil)
		verifCover("C17.act.short")
		return
	}
	verifAssert("C17.act.dec-noerr", err == nil)
	verifAssert("C17.act.dec-ts", r.Timestamp == verifBE64(in[0:8]))
	if n >= 16 {
		verifAssert("C17.act.dec-off-present", r.EstimatedCaptureClockOffset != nil)
		verifAssert("C17.act.dec-off", *r.EstimatedCaptureClockOffset == int64(verifBE64(in[8:16])))
		verifCover("C17.act.dec16")
	} else {
		verifAssert("C17.act.dec-off-absent", r.EstimatedCaptureClockOffset == nil)
		verifCover("C17.act.dec8")
	}
}
