package rtp

import (
	"errors"
	"io"
)

// C04 — MarshalTo honours the destination buffer contract.

var (
	verifC04CC   = []int{0, 2}
	verifC04Plen = []int{0, 2}
	verifC04Pad  = []int{0, 1, 3}
)

func verifC04Build(h *Header) {
	cc := verifPick("cc", verifC04CC)
	verifFixedFields(h, cc)
	kind := verifCase("profile", 0, 3)
	if kind == 0 {
		return
	}
	h.Extension = true
	switch kind {
	case 1:
		h.ExtensionProfile = 0xBEDE
	case 2:
		h.ExtensionProfile = 0x1000
	default:
		h.ExtensionProfile = verifU16("profile-word")
		verifAssume(h.ExtensionProfile != 0xBEDE)
		verifAssume(h.ExtensionProfile != 0x1000)
	}
	ne := 1
	if kind != 3 {
		ne = verifCase("next", 0, verifBound("C04.maxext"))
	}
	var lens []int
	switch kind {
	case 1:
		lens = []int{1, 3, 4}
	case 2:
		lens = []int{0, 1, 2}
	default:
		lens = []int{0, 4}
	}
	for i := 0; i < ne; i++ {
		id := verifU8("ext.id")
		switch kind {
		case 1:
			verifAssume(id >= 1)
			verifAssume(id <= 14)
		case 2:
			verifAssume(id >= 1)
		default:
			verifAssume(id == 0)
		}
		for _, o := range h.GetExtensionIDs() {
			verifAssume(o != id)
		}
		err := h.SetExtension(id, verifBytes("ext.val", verifPick("ext.len", lens)))
		verifAssert("setup.setext", err == nil)
	}
	if kind == 3 && verifCase("legacy-deleted", 0, 1) == 1 {
		// a legacy header whose only value was deleted: an empty extension block
		verifAssert("setup.delext", h.DelExtension(0) == nil)
	}
}

// verifC04Contract checks one MarshalTo call against Marshal() of the same value.
func verifC04Contract(tag string, p *Packet, d int) bool {
	size := p.MarshalSize()
	ref, err := p.Marshal()
	verifAssert(tag+".ref-noerr", err == nil)
	verifAssert(tag+".ref-size", len(ref) == size)
	dst := verifBytes("dst", d)
	prior := append([]byte{}, dst...)
	n, err := p.MarshalTo(dst)
	if d < size {
		verifAssert(tag+".short-err", err != nil)
		verifAssert(tag+".short-kind", errors.Is(err, io.ErrShortBuffer))
		verifAssert(tag+".short-n", n == 0)
		return false
	}
	verifAssert(tag+".noerr", err == nil)
	verifAssert(tag+".n", n == size)
	verifAssert(tag+".same-as-marshal", verifEqBytes(dst[:size], ref))
	verifAssert(tag+".tail-untouched", verifEqBytes(dst[size:], prior[size:]))
	return true
}

// a packet that has been marshaled before and whose header then changed size
func VerifC04Remarshal() {
	var p Packet
	verifC04Build(&p.Header)
	p.Payload = verifBytes("payload", verifPick("plen", verifC04Plen))
	pad := verifPick("pad", []int{0, 2})
	p.PaddingSize = uint8(pad)
	p.Padding = pad != 0
	size1 := p.MarshalSize()
	if !verifC04Contract("C04.first", &p, size1) {
		return
	}
	// change the header between the two calls
	switch verifCase("change", 0, 2) {
	case 0:
		if len(p.Extensions) > 0 {
			_ = p.DelExtension(p.Extensions[0].id)
		}
	case 1:
		if p.Extension {
			switch p.ExtensionProfile {
			case 0xBEDE:
				_ = p.SetExtension(14, verifBytes("newval", 3))
			case 0x1000:
				_ = p.SetExtension(200, verifBytes("newval", 5))
			default:
				_ = p.SetExtension(0, verifBytes("newval", 8))
			}
		} else {
			_ = p.SetExtension(3, verifBytes("newval", 2))
		}
	default:
		p.CSRC = append(p.CSRC, verifU32("newcsrc"))
	}
	size2 := p.MarshalSize()
	lo, hi := size1, size2
	if lo > hi {
		lo, hi = hi, lo
	}
	if lo > 0 {
		lo--
	}
	// every destination length from just below the smaller to the larger of the two sizes
	verifC04Contract("C04.second", &p, verifCase("dst2len", lo, hi))
	verifCover("C04.remarshal.end")
}

func VerifC04Packet() {
	var p Packet
	verifC04Build(&p.Header)
	p.Payload = verifBytes("payload", verifPick("plen", verifC04Plen))
	pad := verifPick("pad", verifC04Pad)
	p.PaddingSize = uint8(pad)
	p.Padding = pad != 0
	size := p.MarshalSize()
	ref, err := p.Marshal()
	verifAssert("C04.ref-noerr", err == nil)
	verifAssert("C04.ref-size", len(ref) == size)

	d := verifCase("dstlen", 0, size+2)
	dst := verifBytes("dst", d)
	prior := append([]byte{}, dst...)
	n, err := p.MarshalTo(dst)
	if d < size {
		verifAssert("C04.short-err", err != nil)
		verifAssert("C04.short-kind", errors.Is(err, io.ErrShortBuffer))
		verifAssert("C04.short-n", n == 0)
		verifCover("C04.pkt.short")
		return
	}
	verifAssert("C04.noerr", err == nil)
	verifAssert("C04.n", n == size)
	verifAssert("C04.same-as-marshal", verifEqBytes(dst[:size], ref))
	verifAssert("C04.tail-untouched", verifEqBytes(dst[size:], prior[size:]))
	if d == size {
		verifCover("C04.pkt.exact")
	}
	if pad > 1 {
		verifCover("C04.pkt.padded")
	}
	verifCover("C04.pkt.end")
}

func VerifC04Header() {
	var h Header
	verifC04Build(&h)
	h.Padding = verifBool("padding")
	size := h.MarshalSize()
	ref, err := h.Marshal()
	verifAssert("C04.h.ref-noerr", err == nil)
	verifAssert("C04.h.ref-size", len(ref) == size)
	d := verifCase("dstlen", 0, size+2)
	dst := verifBytes("dst", d)
	prior := append([]byte{}, dst...)
	n, err := h.MarshalTo(dst)
	if d < size {
		verifAssert("C04.h.short-err", err != nil)
		verifAssert("C04.h.short-kind", errors.Is(err, io.ErrShortBuffer))
		verifAssert("C04.h.short-n", n == 0)
		verifCover("C04.hdr.short")
		return
	}
	verifAssert("C04.h.noerr", err == nil)
	verifAssert("C04.h.n", n == size)
	verifAssert("C04.h.same-as-marshal", verifEqBytes(dst[:size], ref))
	verifAssert("C04.h.tail-untouched", verifEqBytes(dst[size:], prior[size:]))
	verifCover("C04.hdr.end")
}

// the contract on a header whose extension block is in the upper range of the
// 16-bit length field (the destination's bulk is a fixed filler)
func VerifC04Huge() {
	var p Packet
	verifFixedFields(&p.Header, 0)
	p.Extension = true
	p.ExtensionProfile = verifU16("profile")
	verifAssume(p.ExtensionProfile != 0xBEDE)
	verifAssume(p.ExtensionProfile != 0x1000)
	words := verifPick("words", []int{0x3FFF, 0x4000, 0xFFFF})
	verifAssert("C04.huge.set", p.SetExtension(0, verifFiller("legacy", 4*words)) == nil)
	p.Payload = verifBytes("payload", 1)
	size := p.MarshalSize()
	ref, err := p.Marshal()
	verifAssert("C04.huge.ref", err == nil && len(ref) == size && size == 12+4+4*words+1)
	d := size + verifCase("slack", -1, 2)
	dst := verifFiller("dst", d)
	prior := append([]byte{}, dst...)
	n, err := p.MarshalTo(dst)
	if d < size {
		verifAssert("C04.huge.short", err != nil && errors.Is(err, io.ErrShortBuffer) && n == 0)
		verifCover("C04.huge.short")
		return
	}
	verifAssert("C04.huge.noerr", err == nil && n == size)
	verifAssert("C04.huge.same-as-marshal", verifEqBytes(dst[:size], ref))
	verifAssert("C04.huge.tail-untouched", verifEqBytes(dst[size:], prior[size:]))
	// and the header alone
	hs := p.Header.MarshalSize()
	hd := verifFiller("hdst", hs+1)
	hn, err := p.Header.MarshalTo(hd)
	verifAssert("C04.huge.header", err == nil && hn == hs && hs == size-1 && verifEqBytes(hd[:hs], ref[:hs]))
	verifCover("C04.huge.end")
}
