package rtp

import "errors"

// C03 — RTP decoding conforms to RFC 3550 / RFC 8285, re-encoding is stable,
// and the standalone extension-block views agree.
//
// The wire images are rendered by the small encoder below, written from the
// RFC text (it shares nothing with the library's Marshal code).

type verifC03Image struct {
	img        []byte
	version    uint8
	p, x, m    bool
	pt         uint8
	seq        uint16
	ts, ssrc   uint32
	csrc       []uint32
	kind       int // 1 one-byte, 2 two-byte, 3 legacy
	profile    uint16
	ids        []uint8
	vals       [][]byte
	blockStart int // offset of the 4-byte extension header
	blockEnd   int // offset of the first byte after the extension block
	termAt     int // offset of the id-15 terminator byte, -1 if none
	canonical  bool
	payload    []byte
	padSize    int
}

func verifBE16(b []byte, v uint16) []byte { return append(b, uint8(v>>8), uint8(v)) }
func verifBE32(b []byte, v uint32) []byte {
	return append(b, uint8(v>>24), uint8(v>>16), uint8(v>>8), uint8(v))
}

// verifC03Block renders an extension block (4-byte header + items) per RFC
// 3550 section 5.3.1 / RFC 8285 section 4 and records the generating values.
func verifC03Block(w *verifC03Image, kind int) []byte {
	w.kind = kind
	w.termAt = -1
	w.canonical = true
	var body []byte
	switch kind {
	case 3:
		w.profile = verifU16("profile")
		verifAssume(w.profile != 0xBEDE)
		verifAssume(w.profile != 0x1000)
		words := verifCase("legacy.words", 0, verifBound("C03.legacywords"))
		body = verifBytes("legacy.body", 4*words)
		w.ids = []uint8{0}
		w.vals = [][]byte{body}
	default:
		if kind == 1 {
			w.profile = 0xBEDE
		} else {
			w.profile = 0x1000
		}
		n := verifCase("elems", 0, verifBound("C03.maxelems"))
		for i := 0; i < n; i++ {
			pad := verifCase("padrun", 0, verifBound("C03.maxpadrun"))
			if pad > 0 {
				w.canonical = false
			}
			for k := 0; k < pad; k++ {
				body = append(body, 0)
			}
			id := verifU8("id")
			var val []byte
			if kind == 1 {
				verifAssume(id >= 1)
				verifAssume(id <= 14)
				val = verifBytes("val", verifPick("vlen", verifC03Lens(1)))
				body = append(body, id<<4|uint8(len(val)-1))
			} else {
				verifAssume(id >= 1)
				if n := verifPick("vlen", verifC03Lens(2)); n > 64 {
					// bulk value: a fixed non-zero filler with symbolic ends, so that a
					// decoder that mis-frames it does not fan out over its bytes
					val = verifFiller("val", n)
				} else {
					val = verifBytes("val", n)
				}
				body = append(body, id, uint8(len(val)))
			}
			body = append(body, val...)
			w.ids = append(w.ids, id)
			w.vals = append(w.vals, val)
		}
		tail := verifCase("tailpad", 0, verifBound("C03.maxtailpad"))
		if tail > 0 {
			w.canonical = false
		}
		for k := 0; k < tail; k++ {
			body = append(body, 0)
		}
		if kind == 1 && verifCase("terminator", 0, verifBound("C03.terminator")) == 1 {
			// id 15: processing stops, the rest of the block is ignored (RFC 8285 4.2)
			w.canonical = false
			w.termAt = len(body) // relative, fixed up by the caller
			body = append(body, 0xF0|verifU8("term.low")&0x0F)
			g := verifPick("garbage", []int{0, 3, 1, 2}[:verifBound("C03.garbagekinds")])
			body = append(body, verifBytes("garbage", g)...)
		}
		for len(body)%4 != 0 {
			body = append(body, 0)
		}
		if verifCase("extraword", 0, verifBound("C03.extraword")) == 1 {
			w.canonical = false
			body = append(body, 0, 0, 0, 0)
		}
	}
	var blk []byte
	blk = verifBE16(blk, w.profile)
	blk = verifBE16(blk, uint16(len(body)/4))
	return append(blk, body...)
}

func verifC03Render() *verifC03Image {
	w := &verifC03Image{}
	w.version = verifU8("version") & 3
	w.m = verifBool("marker")
	w.pt = verifU8("pt") & 0x7F
	w.seq, w.ts, w.ssrc = verifU16("seq"), verifU32("ts"), verifU32("ssrc")
	cc := verifPick("cc", []int{0, 15, 1}[:verifBound("C03.cckinds")])
	kind := verifCase("kind", 0, 3)
	w.x = kind != 0
	pad := verifPick("rtppad", []int{0, 5, 1}[:verifBound("C03.padkinds")])
	w.p = pad != 0
	w.padSize = pad

	b0 := w.version<<6 | uint8(cc)
	if w.p {
		b0 |= 0x20
	}
	if w.x {
		b0 |= 0x10
	}
	b1 := w.pt
	if w.m {
		b1 |= 0x80
	}
	img := []byte{b0, b1}
	img = verifBE16(img, w.seq)
	img = verifBE32(img, w.ts)
	img = verifBE32(img, w.ssrc)
	for i := 0; i < cc; i++ {
		c := verifU32("csrc")
		w.csrc = append(w.csrc, c)
		img = verifBE32(img, c)
	}
	w.blockStart = len(img)
	w.termAt = -1
	w.canonical = true
	if w.x {
		blk := verifC03Block(w, kind)
		if w.termAt >= 0 {
			w.termAt += len(img) + 4
		}
		img = append(img, blk...)
	}
	w.blockEnd = len(img)
	w.payload = verifBytes("payload", verifPick("plen", []int{0, 3}))
	img = append(img, w.payload...)
	if pad > 0 {
		fill := verifBytes("padfill", pad-1)
		for i := range fill {
			if verifBound("C03.zerofill") == 1 {
				fill[i] = 0
			}
		}
		img = append(img, fill...)
		img = append(img, uint8(pad))
	}
	w.img = img
	return w
}

func VerifC03Decode() {
	w := verifC03Render()
	var p Packet
	if verifCase("used", 0, 1) == 1 {
		// the receiver has decoded a fully populated packet before (3 CSRCs, two one-byte
		// elements, payload, padding): nothing of it may show in the next decode
		prev := []byte{0xB3, 0xE5, 0x12, 0x34, 1, 2, 3, 4, 5, 6, 7, 8, 0xA1, 0xA2, 0xA3, 0xA4, 0xB1, 0xB2, 0xB3, 0xB4, 0xC1, 0xC2, 0xC3, 0xC4,
			0xBE, 0xDE, 0, 2, 0x51, 0xD1, 0xD2, 0x70, 0xD3, 0, 0, 0, 0xE1, 0xE2, 0, 2}
		verifAssert("C03.used-setup", p.Unmarshal(prev) == nil && len(p.CSRC) == 3 && len(p.Extensions) == 2 && p.PaddingSize == 2)
		verifCover("C03.decode.used-receiver")
	}
	err := p.Unmarshal(w.img)
	verifAssert("C03.accept", err == nil)
	verifAssert("C03.version", p.Version == w.version)
	verifAssert("C03.padding", p.Padding == w.p)
	verifAssert("C03.extension", p.Extension == w.x)
	verifAssert("C03.marker", p.Marker == w.m)
	verifAssert("C03.pt", p.PayloadType == w.pt)
	verifAssert("C03.seq", p.SequenceNumber == w.seq)
	verifAssert("C03.ts", p.Timestamp == w.ts)
	verifAssert("C03.ssrc", p.SSRC == w.ssrc)
	verifAssert("C03.cc", len(p.CSRC) == len(w.csrc))
	for i := range w.csrc {
		verifAssert("C03.csrc", p.CSRC[i] == w.csrc[i])
	}
	if w.x {
		verifAssert("C03.profile", p.ExtensionProfile == w.profile)
	}
	ids := p.GetExtensionIDs()
	verifAssert("C03.ext-count", len(ids) == len(w.ids))
	for i := range w.ids {
		verifAssert("C03.ext-id", ids[i] == w.ids[i])
		verifAssert("C03.ext-val", verifEqBytes(p.Extensions[i].payload, w.vals[i]))
		if !verifC03Dup(w.ids, i) {
			verifAssert("C03.ext-get", verifEqBytes(p.GetExtension(w.ids[i]), w.vals[i]))
		}
	}
	verifAssert("C03.padsize", int(p.PaddingSize) == w.padSize)
	// the payload starts right after the extension block
	misplaced := w.termAt >= 0 && w.termAt+1 != w.blockEnd
	if verifKnown("KF-C03-id15-payload-offset", misplaced) {
		verifCover("C03.decode.id15")
		verifAssert("C03.payload", verifEqBytes(p.Payload, w.payload))
		return
	}
	verifAssert("C03.payload", verifEqBytes(p.Payload, w.payload))
	if len(p.Payload) > 0 {
		verifAssert("C03.payload-offset", verifOffset(w.img, p.Payload) == w.blockEnd)
	}
	var h Header
	n, err := h.Unmarshal(w.img)
	verifAssert("C03.header-n", err == nil && n == w.blockEnd)
	if w.termAt >= 0 {
		verifCover("C03.decode.term-at-end")
	}
	// stable re-encoding: an image already in the encoder's layout comes back byte-identical
	if w.canonical && verifBound("C03.zerofill") == 1 {
		out, err := p.Marshal()
		verifAssert("C03.canonical-noerr", err == nil)
		verifAssert("C03.canonical-identical", verifEqBytes(out, w.img))
		verifCover("C03.decode.canonical")
	}
	if w.kind == 1 {
		verifCover("C03.decode.onebyte")
	}
	if w.kind == 2 {
		verifCover("C03.decode.twobyte")
	}
	if w.kind == 3 {
		verifCover("C03.decode.legacy")
	}
	verifCover("C03.decode.end")
}

func verifC03Lens(kind int) []int {
	full := verifBound("C03.vlenfull") == 1
	switch {
	case kind == 1 && full:
		return []int{1, 2, 3, 16}
	case kind == 1:
		return []int{1, 16}
	case full:
		return []int{0, 1, 2, 5, 255}
	}
	return []int{0, 5, 255}
}

// duplicate ids are legal on the wire; GetExtension then returns the first
func verifC03Dup(ids []uint8, i int) bool {
	for k := 0; k < i; k++ {
		if ids[k] == ids[i] {
			return true
		}
	}
	return false
}

// (b) any accepted input re-encodes to bytes that decode to an equal packet
func VerifC03Stable() {
	buf := verifC02Input()
	var p Packet
	if p.Unmarshal(buf) != nil {
		verifCover("C03.stable.reject")
		return
	}
	out, err := p.Marshal()
	if err != nil {
		verifAssert("C03.stable.only-invalid-padding", errors.Is(err, errInvalidRTPPadding))
		verifAssert("C03.stable.padding-cause", p.Padding && p.PaddingSize == 0)
		verifCover("C03.stable.invalid-padding")
		return
	}
	verifAssert("C03.stable.size", len(out) == p.MarshalSize())
	var q Packet
	err = q.Unmarshal(out)
	verifAssert("C03.stable.redecode", err == nil)
	verifAssert("C03.stable.version", q.Version == p.Version)
	verifAssert("C03.stable.padding", q.Padding == p.Padding)
	verifAssert("C03.stable.extension", q.Extension == p.Extension)
	verifAssert("C03.stable.marker", q.Marker == p.Marker)
	verifAssert("C03.stable.pt", q.PayloadType == p.PayloadType)
	verifAssert("C03.stable.seq", q.SequenceNumber == p.SequenceNumber)
	verifAssert("C03.stable.ts", q.Timestamp == p.Timestamp)
	verifAssert("C03.stable.ssrc", q.SSRC == p.SSRC)
	verifAssert("C03.stable.cc", len(q.CSRC) == len(p.CSRC))
	for i := range p.CSRC {
		verifAssert("C03.stable.csrc", q.CSRC[i] == p.CSRC[i])
	}
	if p.Extension {
		verifAssert("C03.stable.profile", q.ExtensionProfile == p.ExtensionProfile)
	}
	verifAssert("C03.stable.ext-count", len(q.Extensions) == len(p.Extensions))
	for i := range p.Extensions {
		verifAssert("C03.stable.ext-id", q.Extensions[i].id == p.Extensions[i].id)
		verifAssert("C03.stable.ext-val", verifEqBytes(q.Extensions[i].payload, p.Extensions[i].payload))
	}
	verifAssert("C03.stable.payload", verifEqBytes(q.Payload, p.Payload))
	verifAssert("C03.stable.padsize", q.PaddingSize == p.PaddingSize)
	again, err := q.Marshal()
	verifAssert("C03.stable.fixpoint", err == nil && verifEqBytes(again, out))
	if p.Extension {
		verifCover("C03.stable.ext")
	}
	verifCover("C03.stable.accept")
}

// (c) the standalone views decode the same block to the same ids and values
func VerifC03Views() {
	w := &verifC03Image{}
	kind := verifCase("kind", 1, 3)
	blk := verifC03Block(w, kind)
	var ext HeaderExtension
	switch kind {
	case 1:
		ext = &OneByteHeaderExtension{}
	case 2:
		ext = &TwoByteHeaderExtension{}
	default:
		ext = &RawExtension{}
	}
	n, err := ext.Unmarshal(blk)
	verifAssert("C03.view.accept", err == nil && n == len(blk))
	if kind == 3 {
		// the raw view exposes the whole block as id 0
		verifAssert("C03.view.raw-ids", len(ext.GetIDs()) == 1 && ext.GetIDs()[0] == 0)
		verifAssert("C03.view.raw-get", verifEqBytes(ext.Get(0), blk))
	} else {
		ids := ext.GetIDs()
		verifAssert("C03.view.id-count", len(ids) == len(w.ids))
		for i := range w.ids {
			verifAssert("C03.view.id", ids[i] == w.ids[i])
			if !verifC03Dup(w.ids, i) {
				verifAssert("C03.view.get", verifEqBytes(ext.Get(w.ids[i]), w.vals[i]))
			}
		}
	}
	out, err := ext.Marshal()
	verifAssert("C03.view.marshal", err == nil && verifEqBytes(out, blk))
	verifAssert("C03.view.size", ext.MarshalSize() == len(blk))
	dst := verifBytes("dst", len(blk)+1)
	m, err := ext.MarshalTo(dst)
	verifAssert("C03.view.marshalto", err == nil && m == len(blk) && verifEqBytes(dst[:m], blk))
	if len(blk) > 0 {
		_, err = ext.MarshalTo(dst[:len(blk)-1])
		verifAssert("C03.view.marshalto-short", err != nil)
	}
	// the wrong view refuses the block
	var wrong HeaderExtension = &TwoByteHeaderExtension{}
	if kind == 2 {
		wrong = &OneByteHeaderExtension{}
	}
	_, err = wrong.Unmarshal(blk)
	verifAssert("C03.view.wrong-profile", err != nil)
	// the same view object decodes a second, different block as a fresh one would
	// (the accessors above have been called in between)
	var blk2 []byte
	id2, v2 := verifU8("second.id"), verifBytes("second.val", 2)
	switch kind {
	case 1:
		verifAssume(id2 >= 1)
		verifAssume(id2 <= 14)
		blk2 = []byte{0xBE, 0xDE, 0, 1, id2<<4 | 1, v2[0], v2[1], 0}
	case 2:
		verifAssume(id2 >= 1)
		blk2 = []byte{0x10, 0x00, 0, 1, id2, 2, v2[0], v2[1]}
	default:
		id2 = 0
		blk2 = []byte{uint8(w.profile >> 8), uint8(w.profile), 0, 1, v2[0], v2[1], verifU8("second.b2"), verifU8("second.b3")}
		v2 = blk2
	}
	n, err = ext.Unmarshal(blk2)
	verifAssert("C03.view.reuse-accept", err == nil && n == len(blk2))
	ids2 := ext.GetIDs()
	verifAssert("C03.view.reuse-ids", len(ids2) == 1 && ids2[0] == id2)
	verifAssert("C03.view.reuse-get", verifEqBytes(ext.Get(id2), v2))
	out2, err := ext.Marshal()
	verifAssert("C03.view.reuse-marshal", err == nil && verifEqBytes(out2, blk2))
	if w.termAt >= 0 {
		verifCover("C03.view.terminator")
	}
	verifCover("C03.view.end")
}

// extension blocks of 16383..65535 words (the 16-bit length field's upper range):
// the bulk is a fixed filler that only travels through slicing and copy, the
// interesting bytes are symbolic
func VerifC03HugeBlock() {
	words := verifPick("words", []int{0x3FFF, 0x4000, 0x4001, 0xFFFF})
	prof := verifU16("profile")
	verifAssume(prof != 0xBEDE)
	verifAssume(prof != 0x1000)
	body := 4 * words
	img := make([]byte, 16+body+2)
	img[0] = 0x90
	img[1] = verifU8("b1")
	img[12], img[13] = uint8(prof>>8), uint8(prof)
	img[14], img[15] = uint8(words>>8), uint8(words)
	edge := verifBytes("edge", 4)
	img[16], img[16+body-1] = edge[0], edge[1]
	img[16+body], img[16+body+1] = edge[2], edge[3]
	var p Packet
	err := p.Unmarshal(img)
	verifAssert("C03.huge.accept", err == nil)
	v := p.GetExtension(0)
	verifAssert("C03.huge.value-len", len(v) == body)
	verifAssert("C03.huge.value-edges", len(v) == body && v[0] == edge[0] && v[body-1] == edge[1])
	verifAssert("C03.huge.payload", len(p.Payload) == 2 && p.Payload[0] == edge[2] && p.Payload[1] == edge[3])
	var h Header
	n, err := h.Unmarshal(img)
	verifAssert("C03.huge.header-n", err == nil && n == 16+body)
	verifAssert("C03.huge.size", p.MarshalSize() == len(img))
	// one word short of the declared block is rejected
	var q Packet
	verifAssert("C03.huge.truncated", q.Unmarshal(img[:16+body-1]) != nil)
	verifCover("C03.huge.end")
}
