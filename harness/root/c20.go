package rtp

// C20 — Clone returns an equal, fully independent copy.

func verifC20Build(p *Packet) verifExtModel {
	cc := verifPick("cc", []int{0, 2})
	verifFixedFields(&p.Header, cc)
	if cc == 0 && verifCase("emptyCSRC", 0, 1) == 1 {
		p.CSRC = []uint32{}
	}
	kind := verifCase("profile", 0, 3)
	ne := 0
	switch kind {
	case 3:
		ne = verifCase("next", 0, 1) // a legacy header may have lost its value (DelExtension)
	case 1, 2:
		ne = verifCase("next", 0, verifBound("C20.maxext"))
	}
	m := verifSetExtensions(&p.Header, kind, ne, false)
	switch verifCase("payloadKind", 0, 2) {
	case 0: // nil payload
	case 1:
		p.Payload = verifBytes("payload", 0)
	default:
		p.Payload = verifBytes("payload", 3)
	}
	pad := verifPick("pad", []int{0, 2})
	p.PaddingSize = uint8(pad)
	p.Padding = pad != 0
	p.PayloadOffset = verifInt("payloadOffset")
	return m
}

func verifC20Equal(tag string, c, p *Packet, m *verifExtModel) {
	verifHeaderEqual(tag, &c.Header, &p.Header, m)
	verifAssert(tag+".payload", verifEqBytes(c.Payload, p.Payload))
	verifAssert(tag+".padsize", c.PaddingSize == p.PaddingSize)
	verifAssert(tag+".payload-nilness", (c.Payload == nil) == (p.Payload == nil))
}

// mutate everything reachable from x, then check y still serialises to ref
func verifC20Mutate(x *Packet, m *verifExtModel) {
	verifHavoc("mut.payload", x.Payload)
	for i := range x.CSRC {
		x.CSRC[i] = verifU32("mut.csrc")
	}
	for i := range x.Extensions {
		verifHavoc("mut.extval", x.Extensions[i].payload)
		x.Extensions[i].id = verifU8("mut.extid")
	}
	switch m.kind {
	case 1:
		_ = x.SetExtension(14, []byte{1, 2, 3})
	case 2:
		_ = x.SetExtension(200, []byte{1, 2, 3})
	case 3:
		_ = x.SetExtension(0, []byte{1, 2, 3, 4})
	}
	if len(m.ids) > 0 {
		_ = x.DelExtension(x.Extensions[0].id)
	}
	x.Version ^= 1
	x.SequenceNumber++
	x.PaddingSize++
}

func VerifC20CloneThenMutateClone() {
	var p Packet
	m := verifC20Build(&p)
	ref, err := p.Marshal()
	verifAssert("C20.ref-noerr", err == nil)
	c := p.Clone()
	verifC20Equal("C20.clone", c, &p, &m)
	verifAssert("C20.payloadoffset", c.PayloadOffset == p.PayloadOffset)
	verifAssert("C20.payload-disjoint", verifDisjoint(c.Payload, p.Payload))
	for i := range c.Extensions {
		verifAssert("C20.extval-disjoint", verifDisjoint(c.Extensions[i].payload, p.Extensions[i].payload))
	}
	cm, err := c.Marshal()
	verifAssert("C20.clone-marshal", err == nil && verifEqBytes(cm, ref))
	verifC20Mutate(c, &m)
	again, err := p.Marshal()
	verifAssert("C20.orig-unchanged-bytes", err == nil && verifEqBytes(again, ref))
	// the original still reports the values it was built from
	q := p
	verifC20Equal("C20.orig-after", &q, &p, &m)
	verifCover("C20.mutclone.end")
}

func VerifC20CloneThenMutateOriginal() {
	var p Packet
	m := verifC20Build(&p)
	ref, err := p.Marshal()
	verifAssert("C20.o.ref-noerr", err == nil)
	c := p.Clone()
	// the model's values alias the original's extension payloads: snapshot them first
	want := make([][]byte, len(m.vals))
	for i := range m.vals {
		want[i] = append([]byte{}, m.vals[i]...)
	}
	verifC20Mutate(&p, &m)
	cm, err := c.Marshal()
	verifAssert("C20.clone-unchanged-bytes", err == nil && verifEqBytes(cm, ref))
	ids := c.GetExtensionIDs()
	verifAssert("C20.clone-ids", len(ids) == len(m.ids))
	for i := range m.ids {
		verifAssert("C20.clone-id", ids[i] == m.ids[i])
		verifAssert("C20.clone-val", verifEqBytes(c.GetExtension(m.ids[i]), want[i]))
	}
	verifCover("C20.mutorig.end")
}

func VerifC20Header() {
	var p Packet
	m := verifC20Build(&p)
	h := p.Header
	ref, err := h.Marshal()
	verifAssert("C20.h.ref-noerr", err == nil)
	c := h.Clone()
	verifHeaderEqual("C20.h.clone", &c, &h, &m)
	verifAssert("C20.h.payloadoffset", c.PayloadOffset == h.PayloadOffset)
	for i := range h.CSRC {
		h.CSRC[i] = verifU32("mut.csrc")
	}
	for i := range h.Extensions {
		verifHavoc("mut.extval", h.Extensions[i].payload)
		h.Extensions[i].id = verifU8("mut.extid")
	}
	if len(m.ids) > 0 {
		_ = h.DelExtension(h.Extensions[0].id)
	}
	cm, err := c.Marshal()
	verifAssert("C20.h.clone-unchanged", err == nil && verifEqBytes(cm, ref))
	verifCover("C20.header.end")
}

// Slices with spare capacity: a clone that kept the original's backing array
// (an empty but non-nil CSRC or Extensions slice with room to grow, say) shows
// no difference until both sides append. Append on one side, then on the
// other, and each must still report its own value.
func VerifC20SpareCapacity() {
	var p Packet
	cc := verifCase("cc", 0, 2)
	verifFixedFields(&p.Header, 0)
	p.CSRC = make([]uint32, cc, cc+2)
	for i := range p.CSRC {
		p.CSRC[i] = verifU32("csrc")
	}
	kind := verifCase("profile", 1, 2)
	ne := verifCase("next", 0, 1)
	p.Extensions = make([]Extension, 0, 3)
	m := verifSetExtensions(&p.Header, kind, ne, false)
	for _, id := range m.ids {
		verifAssume(id != 13)
		verifAssume(id != 14)
	}
	pl := verifCase("payloadLen", 0, 2)
	p.Payload = make([]byte, pl, pl+4)
	verifHavoc("payload", p.Payload)
	ref, err := p.Marshal()
	verifAssert("C20.s.ref-noerr", err == nil)
	byHeader := verifCase("headerClone", 0, 1) == 1
	var c *Packet
	if byHeader {
		c = &Packet{Header: p.Header.Clone(), Payload: append([]byte{}, p.Payload...)}
	} else {
		c = p.Clone()
	}
	verifHeaderEqual("C20.s.clone", &c.Header, &p.Header, &m)
	a, b := verifU32("append.clone"), verifU32("append.orig")
	c.CSRC = append(c.CSRC, a)
	p.CSRC = append(p.CSRC, b)
	verifAssert("C20.s.csrc-clone", len(c.CSRC) == cc+1 && c.CSRC[cc] == a)
	verifAssert("C20.s.csrc-orig", len(p.CSRC) == cc+1 && p.CSRC[cc] == b)
	for i := 0; i < cc; i++ {
		verifAssert("C20.s.csrc-kept", c.CSRC[i] == p.CSRC[i])
	}
	// a fresh extension on each side, different ids and values
	idc, ido := uint8(13), uint8(14)
	va, vb := verifBytes("ext.clone", 2), verifBytes("ext.orig", 2)
	verifAssert("C20.s.set-clone", c.SetExtension(idc, va) == nil)
	verifAssert("C20.s.set-orig", p.SetExtension(ido, vb) == nil)
	verifAssert("C20.s.ext-clone", verifEqBytes(c.GetExtension(idc), va) && c.GetExtension(ido) == nil)
	verifAssert("C20.s.ext-orig", verifEqBytes(p.GetExtension(ido), vb) && p.GetExtension(idc) == nil)
	for i := range m.ids {
		verifAssert("C20.s.ext-kept-clone", verifEqBytes(c.GetExtension(m.ids[i]), m.vals[i]))
		verifAssert("C20.s.ext-kept-orig", verifEqBytes(p.GetExtension(m.ids[i]), m.vals[i]))
	}
	x, y := verifU8("payload.clone"), verifU8("payload.orig")
	c.Payload = append(c.Payload, x)
	p.Payload = append(p.Payload, y)
	verifAssert("C20.s.payload-clone", c.Payload[pl] == x)
	verifAssert("C20.s.payload-orig", p.Payload[pl] == y)
	_ = ref
	verifCover("C20.spare.end")
}

// a legacy extension value of 64 KiB and more (the length field counts 32-bit
// words, so up to 262140 bytes are legal): the clone is equal and independent
func VerifC20Huge() {
	var p Packet
	verifFixedFields(&p.Header, 0)
	p.Extension = true
	p.ExtensionProfile = verifU16("profile")
	verifAssume(p.ExtensionProfile != 0xBEDE)
	verifAssume(p.ExtensionProfile != 0x1000)
	words := verifPick("words", []int{0x3FFF, 0x4000, 0x4001, 0xFFFF})
	v := verifFiller("legacy", 4*words)
	verifAssert("C20.huge.set", p.SetExtension(0, v) == nil)
	p.Payload = verifBytes("payload", 2)
	byHeader := verifCase("headerClone", 0, 1) == 1
	var c *Packet
	if byHeader {
		c = &Packet{Header: p.Header.Clone(), Payload: append([]byte{}, p.Payload...)}
	} else {
		c = p.Clone()
	}
	verifAssert("C20.huge.value", verifEqBytes(c.GetExtension(0), v))
	verifAssert("C20.huge.size", c.MarshalSize() == p.MarshalSize())
	verifAssert("C20.huge.disjoint", verifDisjoint(c.GetExtension(0), v))
	ref, err := p.Marshal()
	cm, err2 := c.Marshal()
	verifAssert("C20.huge.marshal", err == nil && err2 == nil && verifEqBytes(cm, ref))
	verifCover("C20.huge.end")
}

// headers with many extensions (any per-header lookup structure a header may
// grow beyond a handful of entries has to be cloned too): add and delete on
// one side, every id queried on the other
func VerifC20ManyExtensions() {
	var p Packet
	verifFixedFields(&p.Header, 0)
	n := verifPick("extensions", []int{9, 12})
	var vals [][]byte
	for id := 1; id <= n; id++ {
		v := verifBytes("val", 1)
		verifAssert("C20.many.set", p.SetExtension(uint8(id), v) == nil)
		vals = append(vals, v)
	}
	fromWire := verifCase("fromWire", 0, 1) == 1
	if fromWire {
		raw, err := p.Marshal()
		verifAssert("C20.many.marshal", err == nil)
		var q Packet
		verifAssert("C20.many.unmarshal", q.Unmarshal(raw) == nil)
		p = q
		// one more id, as a receiver that annotates the packet would add
		verifAssert("C20.many.set-after-wire", p.SetExtension(14, []byte{0x5A}) == nil)
	}
	c := p.Clone()
	if verifCase("mutateClone", 0, 1) == 1 {
		verifAssert("C20.many.del", c.DelExtension(3) == nil)
		verifAssert("C20.many.add", c.SetExtension(13, []byte{1, 2}) == nil)
		for id := 1; id <= n; id++ {
			verifAssert("C20.many.orig-keeps", verifEqBytes(p.GetExtension(uint8(id)), vals[id-1]))
		}
		verifAssert("C20.many.orig-no-13", p.GetExtension(13) == nil)
		verifAssert("C20.many.clone-no-3", c.GetExtension(3) == nil && verifEqBytes(c.GetExtension(13), []byte{1, 2}))
	} else {
		verifAssert("C20.many.del", p.DelExtension(3) == nil)
		verifAssert("C20.many.add", p.SetExtension(13, []byte{1, 2}) == nil)
		for id := 1; id <= n; id++ {
			verifAssert("C20.many.clone-keeps", verifEqBytes(c.GetExtension(uint8(id)), vals[id-1]))
		}
		verifAssert("C20.many.clone-no-13", c.GetExtension(13) == nil)
		verifAssert("C20.many.orig-no-3", p.GetExtension(3) == nil && verifEqBytes(p.GetExtension(13), []byte{1, 2}))
	}
	verifCover("C20.many.end")
}
