package rtp

// Shared builders for the RTP packet harnesses (C01, C03, C04, C05, C20).

// verifPick case-splits over the entries of tab.
func verifPick(name string, tab []int) int {
	return tab[verifCase(name, 0, len(tab)-1)]
}

// abstract description of the extensions a harness put into a header
type verifExtModel struct {
	kind int // 0 none, 1 one-byte, 2 two-byte, 3 legacy
	ids  []uint8
	vals [][]byte
	prof uint16
}

var (
	verifOneByteLensQ = []int{1, 2, 3, 4, 15, 16}
	verifTwoByteLensQ = []int{0, 1, 2, 3, 5, 17, 255}
)

func verifLenTable(kind int, full bool) []int {
	var t []int
	switch {
	case kind == 1 && full:
		for i := 1; i <= 16; i++ {
			t = append(t, i)
		}
	case kind == 1:
		t = verifOneByteLensQ
	case kind == 2 && full:
		for i := 0; i <= 255; i++ {
			t = append(t, i)
		}
	case kind == 2:
		t = verifTwoByteLensQ
	default: // legacy: whole 32-bit words
		t = []int{0, 4, 8, 12}
	}
	return t
}

// verifSetExtensions populates h through the public API with ne extensions of
// the given profile kind; ids are symbolic, in-profile and pairwise distinct,
// value bytes are symbolic, value lengths are case-split.
func verifSetExtensions(h *Header, kind, ne int, full bool) verifExtModel {
	m := verifExtModel{kind: kind}
	if kind == 0 {
		return m
	}
	h.Extension = true
	switch kind {
	case 1:
		h.ExtensionProfile = 0xBEDE
	case 2:
		h.ExtensionProfile = 0x1000
	case 3:
		h.ExtensionProfile = verifU16("profile")
		verifAssume(h.ExtensionProfile != 0xBEDE)
		verifAssume(h.ExtensionProfile != 0x1000)
	}
	m.prof = h.ExtensionProfile
	tab := verifLenTable(kind, full)
	for i := 0; i < ne; i++ {
		id := verifU8("ext.id")
		switch kind {
		case 1:
			verifAssume(id >= 1)
			verifAssume(id <= 14)
		case 2:
			verifAssume(id >= 1)
		case 3:
			verifAssume(id == 0)
		}
		for _, o := range m.ids {
			verifAssume(o != id)
		}
		val := verifBytes("ext.val", verifPick("ext.len", tab))
		if len(val) == 0 && verifCase("ext.nil", 0, 1) == 1 {
			val = nil // a nil value is as legal as an empty one
		}
		err := h.SetExtension(id, val)
		verifAssert("setup.setext", err == nil)
		m.ids = append(m.ids, id)
		m.vals = append(m.vals, val)
	}
	return m
}

// verifFixedFields fills the fixed header fields with symbolic in-range values.
func verifFixedFields(h *Header, cc int) {
	h.Version = verifU8("version")
	verifAssume(h.Version <= 3)
	h.Marker = verifBool("marker")
	h.PayloadType = verifU8("pt")
	verifAssume(h.PayloadType <= 127)
	h.SequenceNumber = verifU16("seq")
	h.Timestamp = verifU32("ts")
	h.SSRC = verifU32("ssrc")
	if cc > 0 {
		h.CSRC = make([]uint32, cc)
		for i := range h.CSRC {
			h.CSRC[i] = verifU32("csrc")
		}
	}
}

// verifHeaderEqual asserts field-by-field equality of a decoded header with
// the header (and extension model) it was built from.
func verifHeaderEqual(tag string, got, want *Header, m *verifExtModel) {
	verifAssert(tag+".version", got.Version == want.Version)
	verifAssert(tag+".padding", got.Padding == want.Padding)
	verifAssert(tag+".extension", got.Extension == want.Extension)
	verifAssert(tag+".marker", got.Marker == want.Marker)
	verifAssert(tag+".pt", got.PayloadType == want.PayloadType)
	verifAssert(tag+".seq", got.SequenceNumber == want.SequenceNumber)
	verifAssert(tag+".ts", got.Timestamp == want.Timestamp)
	verifAssert(tag+".ssrc", got.SSRC == want.SSRC)
	verifAssert(tag+".cc", len(got.CSRC) == len(want.CSRC))
	for i := range want.CSRC {
		verifAssert(tag+".csrc", got.CSRC[i] == want.CSRC[i])
	}
	if m.kind == 0 {
		verifAssert(tag+".noext", len(got.GetExtensionIDs()) == 0)
		return
	}
	verifAssert(tag+".profile", got.ExtensionProfile == m.prof)
	ids := got.GetExtensionIDs()
	verifAssert(tag+".ext-count", len(ids) == len(m.ids))
	for i := range m.ids {
		verifAssert(tag+".ext-id", ids[i] == m.ids[i])
		verifAssert(tag+".ext-val", verifEqBytes(got.GetExtension(m.ids[i]), m.vals[i]))
		verifAssert(tag+".ext-val-inorder", verifEqBytes(got.Extensions[i].payload, m.vals[i]))
	}
}

// verifFiller returns n bytes of a fixed pattern with symbolic first and last
// bytes: bulk data that only travels through slicing and copy.
func verifFiller(name string, n int) []byte {
	b := make([]byte, n)
	for i := range b {
		b[i] = uint8(i*131 + i>>8*29 + 1)
	}
	if n > 0 {
		b[0] = verifU8(name + ".first")
		b[n-1] = verifU8(name + ".last")
	}
	return b
}
