package rtp

// C02 — RTP parsing is memory-safe and bounded on arbitrary input; receiver
// reuse gives the same result as a fresh receiver.

// verifC02ModeCap lets a harness leave out the later input modes (0 = no cap)
var verifC02ModeCap int

func verifC02Input() []byte {
	hi := verifBound("C02.modes")
	if verifC02ModeCap > 0 && hi > verifC02ModeCap {
		hi = verifC02ModeCap
	}
	mode := verifCase("mode", verifBound("C02.modelo"), hi)
	switch mode {
	case 0:
		// fully arbitrary bytes
		return verifBytes("buf", verifCase("len", 0, verifBound("C02.len")))
	case 1:
		// extension block behind 15 CSRCs: X=1, CC=15, rest arbitrary
		n := 12 + 60 + verifCase("extra", 0, verifBound("C02.extra15"))
		buf := verifBytes("buf", n)
		verifAssume(buf[0]&0x1F == 0x1F)
		return buf
	case 3:
		// no CSRC, extension present: room for a two-word block and bytes behind it
		n := 12 + verifCase("extra", 4, verifBound("C02.extra0"))
		buf := verifBytes("buf", n)
		verifAssume(buf[0]&0x1F == 0x10)
		return buf
	default:
		// one CSRC, extension present
		n := 12 + 4 + verifCase("extra", 0, verifBound("C02.extra1"))
		buf := verifBytes("buf", n)
		verifAssume(buf[0]&0x1F == 0x11)
		return buf
	}
}

func VerifC02Parse() {
	buf := verifC02Input()
	size := len(buf)
	var h Header
	n, err := h.Unmarshal(buf)
	if err == nil {
		verifAssert("C02.n-inside", n >= 0 && n <= size)
		verifAssert("C02.n-min", n >= 12)
		for i := range h.Extensions {
			v := h.Extensions[i].payload
			if len(v) > 0 {
				off := verifOffset(buf, v)
				verifAssert("C02.ext-in-input", off >= 0)
				verifAssert("C02.ext-in-header", off+len(v) <= n)
			}
		}
		if h.Extension {
			verifCover("C02.parse.ext")
		}
	}
	var p Packet
	err2 := p.Unmarshal(buf)
	if err2 == nil {
		verifAssert("C02.header-ok-when-packet-ok", err == nil)
		verifAssert("C02.sum", n+len(p.Payload)+int(p.PaddingSize) == size)
		if n < size {
			verifAssert("C02.payload-aliases-input", verifSameBacking(p.Payload, buf))
			verifAssert("C02.payload-offset", verifOffset(buf, p.Payload) == n)
		}
		verifAssert("C02.payload-bytes", verifEqBytes(p.Payload, buf[n:n+len(p.Payload)]))
		// the accessors are total on whatever was decoded
		ids := p.GetExtensionIDs()
		for _, id := range ids {
			_ = p.GetExtension(id)
		}
		if p.Padding {
			verifCover("C02.parse.padding")
		}
		verifCover("C02.parse.accept")
	} else {
		verifCover("C02.parse.reject")
	}
	verifCover("C02.parse.end")
}

func VerifC02Reuse() {
	verifC02ModeCap = 2 // the X=1/CC=0 mode adds nothing here that mode 0 and 2 do not have
	defer func() { verifC02ModeCap = 0 }()
	buf := verifC02Input()
	var fresh Packet
	errF := fresh.Unmarshal(buf)

	var used Packet
	used.Version = verifU8("pre.version")
	used.Padding = verifBool("pre.padding")
	used.Extension = verifBool("pre.extension")
	used.Marker = verifBool("pre.marker")
	used.PayloadType = verifU8("pre.pt")
	used.SequenceNumber = verifU16("pre.seq")
	used.Timestamp = verifU32("pre.ts")
	used.SSRC = verifU32("pre.ssrc")
	used.ExtensionProfile = verifU16("pre.profile")
	used.PaddingSize = verifU8("pre.padsize")
	used.Payload = verifBytes("pre.payload", 2)
	switch ck := verifCase("pre.csrc", 0, 3); ck {
	case 0: // nil
	case 1:
		used.CSRC = []uint32{}
	case 2:
		used.CSRC = []uint32{verifU32("pre.csrc0"), verifU32("pre.csrc1")}
	default:
		used.CSRC = make([]uint32, 15)
		for i := range used.CSRC {
			used.CSRC[i] = verifU32("pre.csrcN")
		}
	}
	stale := verifBytes("pre.extval", 3)
	switch verifCase("pre.ext", 0, 2) {
	case 0: // nil
	case 1:
		used.Extensions = []Extension{{id: verifU8("pre.extid"), payload: stale}}
	default:
		used.Extensions = []Extension{{id: verifU8("pre.extid"), payload: stale}, {id: verifU8("pre.extid2"), payload: stale[:1]}, {id: 7, payload: nil}}
	}
	errU := used.Unmarshal(buf)
	verifAssert("C02.reuse.same-errorness", (errF == nil) == (errU == nil))
	if errF != nil || errU != nil {
		verifCover("C02.reuse.reject")
		return
	}
	verifAssert("C02.reuse.version", used.Version == fresh.Version)
	verifAssert("C02.reuse.padding", used.Padding == fresh.Padding)
	verifAssert("C02.reuse.extension", used.Extension == fresh.Extension)
	verifAssert("C02.reuse.marker", used.Marker == fresh.Marker)
	verifAssert("C02.reuse.pt", used.PayloadType == fresh.PayloadType)
	verifAssert("C02.reuse.seq", used.SequenceNumber == fresh.SequenceNumber)
	verifAssert("C02.reuse.ts", used.Timestamp == fresh.Timestamp)
	verifAssert("C02.reuse.ssrc", used.SSRC == fresh.SSRC)
	verifAssert("C02.reuse.cc", len(used.CSRC) == len(fresh.CSRC))
	for i := range fresh.CSRC {
		verifAssert("C02.reuse.csrc", used.CSRC[i] == fresh.CSRC[i])
	}
	if fresh.Extension {
		verifAssert("C02.reuse.profile", used.ExtensionProfile == fresh.ExtensionProfile)
	}
	fi, ui := fresh.GetExtensionIDs(), used.GetExtensionIDs()
	verifAssert("C02.reuse.ext-ids", len(fi) == len(ui))
	// the exported element list itself, not only what the accessors show
	verifAssert("C02.reuse.ext-count", len(fresh.Extensions) == len(used.Extensions))
	for i := range fresh.Extensions {
		verifAssert("C02.reuse.ext-id", fresh.Extensions[i].id == used.Extensions[i].id)
		verifAssert("C02.reuse.ext-val", verifEqBytes(fresh.Extensions[i].payload, used.Extensions[i].payload))
	}
	verifAssert("C02.reuse.payload", verifEqBytes(used.Payload, fresh.Payload))
	verifAssert("C02.reuse.padsize", used.PaddingSize == fresh.PaddingSize)
	// and what the two receivers serialise to (thorough tier only: the encoder on a symbolic layout is query-heavy)
	if verifBound("C02.reuse-marshal") != 1 {
		verifCover("C02.reuse.accept")
		return
	}
	fb, ferr := fresh.Marshal()
	ub, uerr := used.Marshal()
	verifAssert("C02.reuse.marshal-errorness", (ferr == nil) == (uerr == nil))
	if ferr == nil && uerr == nil {
		verifAssert("C02.reuse.marshal-bytes", verifEqBytes(fb, ub))
	}
	verifCover("C02.reuse.accept")
}
