package rtp

// C05 — SetExtension/DelExtension/GetExtension/GetExtensionIDs behave as an
// ordered map that survives the wire. Sequences of up to maxops operations,
// every one checked against an abstract ordered list kept by the harness.

type verifC05Model struct {
	ids  []uint8
	vals [][]byte
}

func (m *verifC05Model) find(id uint8) int {
	for i, o := range m.ids {
		if o == id {
			return i
		}
	}
	return -1
}

func verifC05Agrees(tag string, h *Header, m *verifC05Model) {
	ids := h.GetExtensionIDs()
	verifAssert(tag+".ids-len", len(ids) == len(m.ids))
	for i := range m.ids {
		verifAssert(tag+".ids-order", ids[i] == m.ids[i])
		verifAssert(tag+".get", verifEqBytes(h.GetExtension(m.ids[i]), m.vals[i]))
	}
}

type verifC05Snap struct {
	ext  bool
	prof uint16
	ids  []uint8
	vals [][]byte
}

func verifC05Snapshot(h *Header) verifC05Snap {
	s := verifC05Snap{ext: h.Extension, prof: h.ExtensionProfile}
	for _, e := range h.Extensions {
		s.ids = append(s.ids, e.id)
		s.vals = append(s.vals, e.payload)
	}
	return s
}

func verifC05Unchanged(tag string, h *Header, s *verifC05Snap) {
	verifAssert(tag+".flag", h.Extension == s.ext)
	verifAssert(tag+".profile", h.ExtensionProfile == s.prof)
	verifAssert(tag+".count", len(h.Extensions) == len(s.ids))
	for i := range s.ids {
		verifAssert(tag+".id", h.Extensions[i].id == s.ids[i])
		verifAssert(tag+".val", verifEqBytes(h.Extensions[i].payload, s.vals[i]))
	}
}

// verifC05Value: values up to 17 bytes are fully symbolic; longer ones are
// symbolic in their first two and last bytes and a fixed non-zero filler in
// between (the filler only travels through copy, and a decoder that mis-frames
// it then has a single path instead of one per filler byte).
func verifC05Value(n int) []byte {
	if n <= 17 {
		return verifBytes("val", n)
	}
	v := make([]byte, n)
	for i := range v {
		v[i] = 0x5A
	}
	edge := verifBytes("val.edge", 3)
	v[0], v[1], v[n-1] = edge[0], edge[1], edge[2]
	return v
}

var verifC05Lens = []int{0, 1, 2, 4, 16, 17, 255, 256, 300}

func VerifC05Sequence() {
	var h Header
	verifFixedFields(&h, verifPick("cc", []int{0, 2}))
	start := verifCase("start", 0, 4)
	switch start {
	case 4:
		// a header that decoded a packet with extensions and then one without (X=0):
		// it reports no extension, and Set on it starts a fresh list
		prev := []byte{0x90, 0x60, 0, 1, 0, 0, 0, 2, 0, 0, 0, 3, 0xBE, 0xDE, 0, 2, 0x11, 0xA1, 0xA2, 0x20, 0xB1, 0, 0, 0}
		_, err := h.Unmarshal(prev)
		verifAssert("C05.reused-setup-1", err == nil && len(h.GetExtensionIDs()) == 2)
		plain := []byte{0x80, 0x60, 0, 2, 0, 0, 0, 4, 0, 0, 0, 5}
		_, err = h.Unmarshal(plain)
		verifAssert("C05.reused-setup-2", err == nil && !h.Extension && len(h.GetExtensionIDs()) == 0)
		verifCover("C05.reused-header")
	case 1:
		h.Extension, h.ExtensionProfile = true, 0xBEDE
	case 2:
		h.Extension, h.ExtensionProfile = true, 0x1000
	case 3:
		h.Extension, h.ExtensionProfile = true, verifU16("legacy.profile")
		verifAssume(h.ExtensionProfile != 0xBEDE)
		verifAssume(h.ExtensionProfile != 0x1000)
		// a legacy header carries exactly one id-0 value of whole words
		first := verifBytes("legacy.val", 4*verifCase("legacy.words", 0, 1))
		verifAssert("C05.legacy-setup", h.SetExtension(0, first) == nil)
	}
	m := &verifC05Model{}
	if start == 3 {
		m.ids = append(m.ids, 0)
		m.vals = append(m.vals, h.Extensions[0].payload)
	}
	// pre-populate 0..k entries with distinct in-profile ids (the ordered-map invariant),
	// so that a short operation sequence starts from any reachable list
	maxops := verifBound("C05.maxops")
	if start == 1 || start == 2 {
		npre := verifCase("pre", 0, verifBound("C05.maxpre"))
		if npre > 0 {
			maxops = verifBound("C05.maxops-pre")
		}
		for i := 0; i < npre; i++ {
			id := verifU8("pre.id")
			verifAssume(id >= 1)
			if start == 1 {
				verifAssume(id <= 14)
			}
			for _, o := range m.ids {
				verifAssume(o != id)
			}
			val := verifBytes("pre.val", 1+i%2)
			verifAssert("C05.pre-setup", h.SetExtension(id, val) == nil)
			m.ids = append(m.ids, id)
			m.vals = append(m.vals, val)
		}
		if npre == 3 {
			verifCover("C05.pre3")
		}
		if npre > 0 && verifCase("from-wire", 0, 1) == 1 {
			// the same list, but obtained from Unmarshal: values alias the wire buffer
			raw, err := h.Marshal()
			verifAssert("C05.wire-setup-marshal", err == nil)
			var g Header
			_, err = g.Unmarshal(raw)
			verifAssert("C05.wire-setup-unmarshal", err == nil)
			h = g
			verifC05Agrees("C05.wire-setup", &h, m)
			verifCover("C05.from-wire")
		}
	}
	nops := verifCase("nops", 1, maxops)
	for op := 0; op < nops; op++ {
		snap := verifC05Snapshot(&h)
		id := verifU8("id")
		if verifCase("op", 0, 1) == 0 {
			val := verifC05Value(verifPick("vlen", verifC05Lens[:verifBound("C05.lenkinds")]))
			err := h.SetExtension(id, val)
			if err != nil {
				verifC05Unchanged("C05.set-err-unchanged", &h, &snap)
				verifCover("C05.set.rejected")
			} else {
				if i := m.find(id); i >= 0 {
					m.vals[i] = val
					verifCover("C05.set.replaced")
				} else {
					m.ids = append(m.ids, id)
					m.vals = append(m.vals, val)
				}
				verifCover("C05.set.accepted")
			}
		} else {
			err := h.DelExtension(id)
			i := m.find(id)
			if err != nil {
				verifAssert("C05.del-err-only-when-absent", i < 0)
				verifC05Unchanged("C05.del-err-unchanged", &h, &snap)
				verifCover("C05.del.rejected")
			} else {
				verifAssert("C05.del-ok-only-when-present", i >= 0)
				m.ids = append(m.ids[:i:i], m.ids[i+1:]...)
				m.vals = append(m.vals[:i:i], m.vals[i+1:]...)
				verifCover("C05.del.accepted")
			}
		}
		verifC05Agrees("C05.after-op", &h, m)
		if m.find(id) < 0 {
			// deleted and never-set ids are absent
			verifAssert("C05.absent-get", h.GetExtension(id) == nil)
		}
	}
	// a following Marshal never panics and may refuse only a ragged legacy value
	raw, err := h.Marshal()
	if err != nil {
		legacy := h.Extension && h.ExtensionProfile != 0xBEDE && h.ExtensionProfile != 0x1000
		verifAssert("C05.marshal-refuses-only-legacy", legacy)
		verifAssert("C05.marshal-refuses-only-ragged", len(m.vals) > 0 && len(m.vals[0])%4 != 0)
		verifCover("C05.marshal.refused")
		return
	}
	var g Header
	_, err = g.Unmarshal(raw)
	verifAssert("C05.wire-decodes", err == nil)
	for i := range m.ids {
		verifAssert("C05.wire-value", verifEqBytes(g.GetExtension(m.ids[i]), m.vals[i]))
	}
	// A legacy (RFC 3550) block always decodes to exactly one id-0 value, even an
	// empty one, so the id list is compared only for the RFC 8285 profiles.
	if g.Extension && (g.ExtensionProfile == 0xBEDE || g.ExtensionProfile == 0x1000) {
		gids := g.GetExtensionIDs()
		verifAssert("C05.wire-count", len(gids) == len(m.ids))
		for i := range m.ids {
			verifAssert("C05.wire-order", gids[i] == m.ids[i])
		}
	}
	verifCover("C05.end")
}
