package codecs

// C13 (c) — AV1 packetization is lossless and obeys the AV1 RTP aggregation rules.

type VerifOBU struct {
	Hdr     uint8 // type<<3 | ext<<2 | has_size<<1 | reserved
	Ext     uint8
	HasExt  bool
	HasSize bool
	Payload []byte
}

func (o VerifOBU) Type() uint8 { return o.Hdr >> 3 & 0x0F }

// Transmitted renders the OBU as it travels in RTP: size flag cleared, no size field.
func (o VerifOBU) Transmitted() []byte {
	b := []byte{o.Hdr &^ 0x02}
	if o.HasExt {
		b = append(b, o.Ext)
	}
	return append(b, o.Payload...)
}

// WithSize renders the OBU as the depacketizer returns it: size flag set, LEB128 size.
func (o VerifOBU) WithSize() []byte {
	b := []byte{o.Hdr | 0x02}
	if o.HasExt {
		b = append(b, o.Ext)
	}
	b = append(b, uint8(len(o.Payload))) // payloads in the harness are shorter than 128 bytes
	return append(b, o.Payload...)
}

// VerifSrc hands the generator the calling package's nondet primitives (each
// package has its own tape-reading runtime in native replays).
type VerifSrc interface {
	Case(name string, lo, hi int) int
	U8(name string) uint8
	Bytes(name string, n int) []byte
}

type verifLocalSrc struct{}

func (verifLocalSrc) Case(name string, lo, hi int) int { return verifCase(name, lo, hi) }
func (verifLocalSrc) U8(name string) uint8             { return verifU8(name) }
func (verifLocalSrc) Bytes(name string, n int) []byte  { return verifBytes(name, n) }

// VerifHelperAV1Stream builds a low-overhead bitstream of 1..max OBUs (layout
// case-split, values symbolic) and returns it with the OBUs that must arrive.
func VerifHelperAV1Stream(src VerifSrc, max int, maxPayload int) (stream []byte, kept []VerifOBU) {
	n := src.Case("obus", 1, max)
	for i := 0; i < n; i++ {
		o := VerifOBU{HasExt: src.Case("ext", 0, 1) == 1, HasSize: true}
		if i == n-1 {
			o.HasSize = src.Case("lastHasSize", 0, 1) == 1
		}
		t := src.U8("type") & 0x0F
		o.Hdr = t<<3 | src.U8("reserved")&1
		if o.HasExt {
			o.Hdr |= 0x04
			o.Ext = src.U8("extbyte")
		}
		if o.HasSize {
			o.Hdr |= 0x02
		}
		o.Payload = src.Bytes("obu.payload", src.Case("psize", 0, maxPayload))
		stream = append(stream, o.Hdr)
		if o.HasExt {
			stream = append(stream, o.Ext)
		}
		if o.HasSize {
			stream = append(stream, uint8(len(o.Payload)))
		}
		stream = append(stream, o.Payload...)
		// temporal delimiters and tile lists are not transmitted
		if t != 2 && t != 8 {
			kept = append(kept, o)
		}
	}
	return stream, kept
}

func VerifC13Packetize() {
	stream, kept := VerifHelperAV1Stream(verifLocalSrc{}, verifBound("C13.obus"), verifBound("C13.payload"))
	mtu := verifU16("mtu")
	verifAssume(mtu >= 2)
	verifAssume(int(mtu) <= len(stream)+3) // every fragmentation pattern of the shape; larger MTUs behave like len+3
	payloads := (&AV1Payloader{}).Payload(mtu, stream)

	// (1) lossless through AV1Depacketizer, with size fields
	dep := &AV1Depacketizer{}
	var got []byte
	for _, pl := range payloads {
		verifAssert("C13.pk.mtu", len(pl) <= int(mtu))
		out, err := dep.Unmarshal(pl)
		verifAssert("C13.pk.depacketize-noerr", err == nil)
		got = append(got, out...)
	}
	var want []byte
	for _, o := range kept {
		want = append(want, o.WithSize()...)
	}
	verifAssert("C13.pk.lossless", verifEqBytes(got, want))

	// (2) aggregation header rules
	prevY := false
	for pi, pl := range payloads {
		verifAssert("C13.agg.len", len(pl) >= 2)
		z, y, w := pl[0]&0x80 != 0, pl[0]&0x40 != 0, int(pl[0]>>4&3)
		verifAssert("C13.agg.Z-follows-Y", z == prevY)
		if pi == 0 {
			verifAssert("C13.agg.first-Z", !z)
		}
		if pi == len(payloads)-1 {
			verifAssert("C13.agg.last-Y", !y)
		}
		prevY = y
		// split into elements
		off := 1
		idx := 0
		var tid, sid uint8
		haveIDs := false
		for off < len(pl) {
			size := len(pl) - off
			if w == 0 || idx < w-1 {
				size = int(pl[off]) // lengths in the harness stay below 128: one LEB128 byte
				verifAssert("C13.agg.leb-single-byte", pl[off]&0x80 == 0)
				off++
			}
			verifAssert("C13.agg.element-in-packet", off+size <= len(pl))
			verifAssert("C13.agg.no-empty-element", size >= 1)
			el := pl[off : off+size]
			if !(idx == 0 && z) {
				// the element starts an OBU: size flag cleared
				verifAssert("C13.agg.size-flag-cleared", el[0]&0x02 == 0 && el[0]&0x80 == 0)
				if el[0]&0x04 != 0 && len(el) >= 2 {
					t, s := el[1]>>5, el[1]>>3&3
					if haveIDs {
						verifAssert("C13.agg.one-layer-per-packet", t == tid && s == sid)
					}
					tid, sid, haveIDs = t, s, true
				}
			}
			off += size
			idx++
		}
		if w != 0 {
			verifAssert("C13.agg.W-counts-elements", idx == w)
		}
		if idx > 1 {
			verifCover("C13.agg.aggregated")
		}
		if z {
			verifCover("C13.agg.fragmented")
		}
	}
	verifCover("C13.packetize.end")
}

// three (or four) OBUs that all carry extension headers: OBUs with different
// temporal/spatial ids never share a packet, whatever the MTU
func VerifC13ExtensionIDs() {
	n := verifCase("obus", 3, verifBound("C13.extobus"))
	var stream []byte
	var exts []uint8
	for i := 0; i < n; i++ {
		t := verifU8("type") & 0x0F
		verifAssume(t != 2) // the OBUs that are not transmitted are the "middle" kinds 2 and 3 below
		verifAssume(t != 8)
		pl := verifBytes("obu.payload", 1)
		if i < n-1 {
			switch verifCase("middle", 0, verifBound("C13.extkinds")-1) {
			case 1:
				// an OBU without extension header between two that have one
				stream = append(stream, t<<3|0x02, 1, pl[0])
				continue
			case 2:
				// an OBU that is not transmitted (temporal delimiter or tile list) in between
				d := uint8(2)
				if verifBool("tilelist") {
					d = 8
				}
				stream = append(stream, d<<3|0x02, 1, pl[0])
				verifCover("C13.extids.dropped-between")
				continue
			case 3:
				// the same carrying an extension header of its own
				d := uint8(2)
				if verifBool("tilelist") {
					d = 8
				}
				stream = append(stream, d<<3|0x04|0x02, verifU8("dropped.extbyte"), 1, pl[0])
				continue
			}
		}
		ext := verifU8("extbyte")
		stream = append(stream, t<<3|0x04|0x02, ext, 1, pl[0])
		exts = append(exts, ext)
	}
	mtu := verifU16("mtu")
	verifAssume(mtu >= 2)
	verifAssume(int(mtu) <= len(stream)+3)
	payloads := (&AV1Payloader{}).Payload(mtu, stream)
	for _, pl := range payloads {
		z, w := pl[0]&0x80 != 0, int(pl[0]>>4&3)
		off, idx := 1, 0
		var tid, sid uint8
		have := false
		for off < len(pl) {
			size := len(pl) - off
			if w == 0 || idx < w-1 {
				size = int(pl[off])
				off++
			}
			verifAssert("C13.ext.element-in-packet", off+size <= len(pl) && size >= 1)
			el := pl[off : off+size]
			if !(idx == 0 && z) && el[0]&0x04 != 0 && len(el) >= 2 {
				tt, ss := el[1]>>5, el[1]>>3&3
				if have {
					verifAssert("C13.ext.one-layer-per-packet", tt == tid && ss == sid)
				}
				tid, sid, have = tt, ss, true
			}
			off += size
			idx++
		}
	}
	verifCover("C13.extids.end")
}

// elements of 128 bytes and more: two-byte LEB128 length fields and MTUs of 130+
func VerifC13LargeElements() {
	size := verifPick("size", []int{126, 127, 128, 129, 255, 256, 257, 258, 259})
	big := make([]byte, size)
	for i := range big {
		big[i] = 0x5A
	}
	edge := verifBytes("edge", 2)
	big[0], big[size-1] = edge[0], edge[1]
	t1, t2 := verifU8("type1")&0x0F, verifU8("type2")&0x0F
	for _, t := range []uint8{t1, t2} {
		verifAssume(t != 1)
		verifAssume(t != 2)
		verifAssume(t != 8)
	}
	var stream []byte
	stream = append(stream, t1<<3|0x02)
	if size < 128 {
		stream = append(stream, uint8(size))
	} else {
		stream = append(stream, uint8(size&0x7F)|0x80, uint8(size>>7))
	}
	stream = append(stream, big...)
	small := verifBytes("small", 2)
	stream = append(stream, t2<<3|0x02, 2, small[0], small[1])
	mtu := uint16(verifCase("mtu", 128, 133))
	payloads := (&AV1Payloader{}).Payload(mtu, stream)
	dep := &AV1Depacketizer{}
	var got []byte
	for _, pl := range payloads {
		verifAssert("C13.large.mtu", len(pl) <= int(mtu))
		out, err := dep.Unmarshal(pl)
		verifAssert("C13.large.depacketize-noerr", err == nil)
		got = append(got, out...)
	}
	verifAssert("C13.large.lossless", verifEqBytes(got, stream))
	verifCover("C13.large.end")
}

// an element longer than 64 KiB: three-byte LEB128 length, fragment offsets beyond 16 bits
func VerifC13LongElement() {
	size := verifPick("size", []int{65540, 80010})
	big := verifLongFrame(size, false)
	t1 := verifU8("type1") & 0x0F
	verifAssume(t1 != 1)
	verifAssume(t1 != 2)
	verifAssume(t1 != 8)
	verifAssume(t1 != 15)
	stream := []byte{t1<<3 | 0x02, uint8(size&0x7F) | 0x80, uint8(size>>7&0x7F) | 0x80, uint8(size >> 14)}
	stream = append(stream, big...)
	mtu := uint16(verifPick("mtu", []int{65535, 40000, 30011}))
	payloads := (&AV1Payloader{}).Payload(mtu, stream)
	dep := &AV1Depacketizer{}
	var got []byte
	for _, pl := range payloads {
		verifAssert("C13.long.mtu", len(pl) <= int(mtu))
		out, err := dep.Unmarshal(pl)
		verifAssert("C13.long.depacketize-noerr", err == nil)
		got = append(got, out...)
	}
	verifAssert("C13.long.lossless", verifEqBytes(got, stream))
	verifCover("C13.long.end")
}
