package frame

import "github.com/pion/rtp/codecs"

type verifLocalSrc struct{}

func (verifLocalSrc) Case(name string, lo, hi int) int { return verifCase(name, lo, hi) }
func (verifLocalSrc) U8(name string) uint8             { return verifU8(name) }
func (verifLocalSrc) Bytes(name string, n int) []byte  { return verifBytes(name, n) }

// C13: the deprecated AV1Packet + frame assembler path reassembles the same OBUs.
func VerifC13Assembler() {
	stream, kept := codecs.VerifHelperAV1Stream(verifLocalSrc{}, verifBound("C13.obus"), verifBound("C13.payload"))
	mtu := verifU16("mtu")
	verifAssume(mtu >= 2)
	verifAssume(int(mtu) <= len(stream)+3)
	payloads := (&codecs.AV1Payloader{}).Payload(mtu, stream)
	f := &AV1{}
	var got [][]byte
	for _, pl := range payloads {
		pkt := &codecs.AV1Packet{}
		_, err := pkt.Unmarshal(pl)
		verifAssert("C13.asm.parse", err == nil)
		obus, err := f.ReadFrames(pkt)
		verifAssert("C13.asm.read", err == nil)
		got = append(got, obus...)
	}
	verifAssert("C13.asm.count", len(got) == len(kept))
	for i := range kept {
		if i < len(got) {
			verifAssert("C13.asm.obu", verifEqBytes(got[i], kept[i].Transmitted()))
		}
	}
	verifCover("C13.assembler.end")
}
