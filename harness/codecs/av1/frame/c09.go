package frame

import "github.com/pion/rtp/codecs"

// C09: the deprecated AV1Packet + frame assembler path never panics.
func VerifC09FrameAssembler() {
	f := &AV1{}
	if n := verifCase("buffered", -1, 2); n >= 0 {
		f.obuBuffer = verifBytes("obuBuffer", n)
	}
	for i := 0; i < verifBound("C09.frame.calls"); i++ {
		pl := verifBytes("payload", verifCase("plen", 0, verifBound("C09.len.av1")))
		p := &codecs.AV1Packet{}
		if _, err := p.Unmarshal(pl); err == nil {
			obus, err := f.ReadFrames(p)
			verifAssert("C09.frame.noerr", err == nil)
			_ = obus
			verifCover("C09.frame.read")
		}
	}
	// hand-made packet values as well (any Z/Y, nil and empty elements)
	q := &codecs.AV1Packet{Z: verifBool("z"), Y: verifBool("y")}
	switch verifCase("elements", 0, 2) {
	case 1:
		q.OBUElements = [][]byte{verifBytes("e0", 1)}
	case 2:
		q.OBUElements = [][]byte{nil, verifBytes("e1", 2)}
	}
	_, _ = f.ReadFrames(q)
	verifCover("C09.frame.end")
}
