package obu

// C13 (a) LEB128 write/read are mutually inverse; (b) OBU header parse/marshal
// are mutually inverse.

func VerifC13Leb128WriteRead() {
	v := verifU64("v")
	bits := verifBound("C13.leb.bits")
	verifAssume(v>>uint(bits) == 0)
	enc := WriteToLeb128(uint(v))
	// independent size oracle: one byte per started group of 7 bits
	want := 1
	for x := v >> 7; x != 0; x >>= 7 {
		want++
	}
	verifAssert("C13.leb.size", len(enc) == want)
	// every byte but the last has the continuation bit; 7-bit groups little-endian
	for i := range enc {
		verifAssert("C13.leb.group", enc[i]&0x7F == uint8(v>>(7*uint(i)))&0x7F)
		verifAssert("C13.leb.cont", (enc[i]&0x80 != 0) == (i < len(enc)-1))
	}
	got, n, err := ReadLeb128(enc)
	verifAssert("C13.leb.read-noerr", err == nil)
	verifAssert("C13.leb.read-n", int(n) == len(enc))
	verifAssert("C13.leb.read-v", uint64(got) == v)
	// trailing bytes after a complete value are not consumed
	ext := append(append([]byte{}, enc...), verifU8("trail"))
	got, n, err = ReadLeb128(ext)
	verifAssert("C13.leb.read-trail", err == nil && int(n) == len(enc) && uint64(got) == v)
	// every proper prefix is rejected
	if len(enc) > 1 {
		_, _, err = ReadLeb128(enc[:len(enc)-1])
		verifAssert("C13.leb.read-short", err != nil)
		verifCover("C13.leb.multi")
	}
	// the integer-packed encoder agrees byte for byte (big-endian packing)
	packed := uint64(EncodeLEB128(uint(v)))
	if len(enc) <= 8 {
		var exp uint64
		for i := range enc {
			exp = exp<<8 | uint64(enc[i])
		}
		verifAssert("C13.leb.packed", packed == exp)
	}
	verifCover("C13.leb.end")
}

func VerifC13Leb128ReadWrite() {
	n := verifCase("len", 0, verifBound("C13.leb.inlen"))
	in := verifBytes("in", n)
	v, used, err := ReadLeb128(in)
	if err != nil {
		// rejected exactly when no byte has the continuation bit clear
		for i := range in {
			verifAssert("C13.leb.reject-allcont", in[i]&0x80 != 0)
		}
		verifCover("C13.leb.reject")
		return
	}
	verifAssert("C13.leb.used", int(used) >= 1 && int(used) <= n)
	k := int(used)
	verifAssert("C13.leb.term", in[k-1]&0x80 == 0)
	var exp uint64
	for i := 0; i < k; i++ {
		if i < k-1 {
			verifAssert("C13.leb.contbits", in[i]&0x80 != 0)
		}
		exp |= uint64(in[i]&0x7F) << (7 * uint(i))
	}
	verifAssert("C13.leb.value", uint64(v) == exp)
	re := WriteToLeb128(v)
	v2, _, err2 := ReadLeb128(re)
	verifAssert("C13.leb.reencode-rt", err2 == nil && v2 == v)
	if k == 1 || in[k-1] != 0 {
		// canonical input: the encoder reproduces it byte for byte
		verifAssert("C13.leb.canonical", verifEqBytes(re, in[:k]))
		verifCover("C13.leb.canonical")
	}
	verifCover("C13.leb.accept")
}

func VerifC13OBUHeaderParseMarshal() {
	n := verifCase("len", 0, 3)
	in := verifBytes("in", n)
	h, err := ParseOBUHeader(in)
	short := n == 0 || (in[0]&0x04 != 0 && n < 2)
	if n > 0 && in[0]&0x80 != 0 {
		verifAssert("C13.obuh.forbidden", err != nil)
		verifCover("C13.obuh.forbidden")
		return
	}
	if short {
		verifAssert("C13.obuh.short", err != nil)
		verifCover("C13.obuh.short")
		return
	}
	verifAssert("C13.obuh.noerr", err == nil && h != nil)
	verifAssert("C13.obuh.type", uint8(h.Type) == (in[0]>>3)&0x0F)
	verifAssert("C13.obuh.size-flag", h.HasSizeField == (in[0]&0x02 != 0))
	verifAssert("C13.obuh.reserved", h.Reserved1Bit == (in[0]&0x01 != 0))
	verifAssert("C13.obuh.ext-present", (h.ExtensionHeader != nil) == (in[0]&0x04 != 0))
	size := 1
	if h.ExtensionHeader != nil {
		verifAssert("C13.obuh.tid", h.ExtensionHeader.TemporalID == in[1]>>5)
		verifAssert("C13.obuh.sid", h.ExtensionHeader.SpatialID == (in[1]>>3)&3)
		verifAssert("C13.obuh.res3", h.ExtensionHeader.Reserved3Bits == in[1]&7)
		size = 2
		verifCover("C13.obuh.ext")
	}
	verifAssert("C13.obuh.sizefn", h.Size() == size)
	out := h.Marshal()
	verifAssert("C13.obuh.marshal-parse", verifEqBytes(out, in[:size]))
	verifCover("C13.obuh.ok")
}

func VerifC13OBUHeaderMarshalParse() {
	h := Header{Type: Type(verifU8("type")), HasSizeField: verifBool("hasSize"), Reserved1Bit: verifBool("res1")}
	verifAssume(h.Type <= 15)
	ext := ExtensionHeader{TemporalID: verifU8("tid"), SpatialID: verifU8("sid"), Reserved3Bits: verifU8("res3")}
	verifAssume(ext.TemporalID <= 7)
	verifAssume(ext.SpatialID <= 3)
	verifAssume(ext.Reserved3Bits <= 7)
	withExt := verifCase("ext", 0, 1) == 1
	if withExt {
		h.ExtensionHeader = &ext
	}
	b := h.Marshal()
	verifAssert("C13.obuh.m-size", len(b) == h.Size())
	verifAssert("C13.obuh.m-forbidden", b[0]&0x80 == 0)
	g, err := ParseOBUHeader(b)
	verifAssert("C13.obuh.m-noerr", err == nil && g != nil)
	verifAssert("C13.obuh.m-type", g.Type == h.Type)
	verifAssert("C13.obuh.m-flags", g.HasSizeField == h.HasSizeField && g.Reserved1Bit == h.Reserved1Bit)
	if withExt {
		verifAssert("C13.obuh.m-ext", g.ExtensionHeader != nil)
		verifAssert("C13.obuh.m-extv", *g.ExtensionHeader == ext)
		verifCover("C13.obuh.m-ext")
	} else {
		verifAssert("C13.obuh.m-noext", g.ExtensionHeader == nil)
	}
	// a whole OBU: header, optional size field, payload
	pl := verifBytes("payload", verifCase("plen", 0, 3))
	o := OBU{Header: h, Payload: pl}
	ob := o.Marshal()
	hs := h.Size()
	verifAssert("C13.obu.header", verifEqBytes(ob[:hs], b))
	if h.HasSizeField {
		sz, n, err := ReadLeb128(ob[hs:])
		verifAssert("C13.obu.sizefield", err == nil && int(sz) == len(pl) && n == 1)
		hs += int(n)
	}
	verifAssert("C13.obu.payload", verifEqBytes(ob[hs:], pl))
	verifCover("C13.obuh.m-end")
}
