package codecs

// verifPick case-splits over the entries of tab.
func verifPick(name string, tab []int) int {
	return tab[verifCase(name, 0, len(tab)-1)]
}

// verifLongFrame builds an n-byte frame whose bytes are a fixed non-periodic
// pattern except for a few symbolic positions around the 16-bit boundaries (non-zero on request: the
// pattern itself never has two equal consecutive bytes, so no start code), so
// frames longer than 64 KiB stay cheap to carry through the executor.
func verifLongFrame(n int, nonzero bool) []byte {
	f := make([]byte, n)
	for i := range f {
		f[i] = uint8(i*131 + i>>8*29 + i>>16*7 + 1)
	}
	for _, at := range []int{0, 65535, 65536, 65537, n - 1} {
		if at < n {
			f[at] = verifU8("long.byte")
			if nonzero {
				verifAssume(f[at] != 0)
			}
		}
	}
	return f
}
