package codecs

// verifPick case-splits over the entries of tab.
func verifPick(name string, tab []int) int {
	return tab[verifCase(name, 0, len(tab)-1)]
}
