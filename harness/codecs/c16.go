package codecs

// C16 — G711/G722 split losslessly, Opus is passed through.

func verifC16Split(frags [][]byte, in []byte, mtu uint16, tag string) {
	off := 0
	n := len(in)
	for i, f := range frags {
		verifAssert("C16."+tag+".size", len(f) <= int(mtu))
		if i < len(frags)-1 {
			verifAssert("C16."+tag+".fill", len(f) == int(mtu))
		}
		verifAssert("C16."+tag+".inrange", off+len(f) <= n)
		verifAssert("C16."+tag+".bytes", verifEqBytes(f, in[off:off+len(f)]))
		verifAssert("C16."+tag+".owned", verifDisjoint(f, in))
		off += len(f)
	}
	verifAssert("C16."+tag+".total", off == n)
	if len(frags) > 1 {
		verifCover("C16." + tag + ".multi")
	}
}

func VerifC16G711() {
	n := verifCase("len", 0, verifBound("C16.len"))
	mtu := verifU16("mtu")
	verifAssume(mtu >= 1)
	in := verifBytes("in", n)
	if verifCase("spare-capacity", 0, 1) == 1 {
		// a slice of a larger receive buffer: the bytes behind len(in) are not input
		backing := append(append([]byte{}, in...), verifBytes("behind", 3)...)
		in = backing[:n]
	}
	frags := (&G711Payloader{}).Payload(mtu, in)
	verifC16Split(frags, in, mtu, "g711")
	verifCover("C16.g711.end")
}

func VerifC16G722() {
	n := verifCase("len", 0, verifBound("C16.len"))
	mtu := verifU16("mtu")
	verifAssume(mtu >= 1)
	in := verifBytes("in", n)
	if verifCase("spare-capacity", 0, 1) == 1 {
		// a slice of a larger receive buffer: the bytes behind len(in) are not input
		backing := append(append([]byte{}, in...), verifBytes("behind", 3)...)
		in = backing[:n]
	}
	frags := (&G722Payloader{}).Payload(mtu, in)
	verifC16Split(frags, in, mtu, "g722")
	verifCover("C16.g722.end")
}

func VerifC16Opus() {
	n := verifCase("len", 0, verifBound("C16.len"))
	mtu := verifU16("mtu")
	in := verifBytes("in", n)
	opus := &OpusPayloader{}
	frags := opus.Payload(mtu, in)
	verifAssert("C16.opus.one", len(frags) == 1)
	verifAssert("C16.opus.equal", verifEqBytes(frags[0], in))
	verifAssert("C16.opus.owned", verifDisjoint(frags[0], in))
	// a second packet through the same payloader: the first fragment is the caller's
	next := verifBytes("next", verifCase("next.len", 1, 2))
	frags2 := opus.Payload(mtu, next)
	verifAssert("C16.opus.second", len(frags2) == 1 && verifEqBytes(frags2[0], next) && verifDisjoint(frags2[0], next))
	verifAssert("C16.opus.first-unchanged", verifEqBytes(frags[0], in) && verifDisjoint(frags[0], frags2[0]))
	// nil input: no fragment or one empty fragment, never a panic
	nf := (&OpusPayloader{}).Payload(mtu, nil)
	verifAssert("C16.opus.nil", len(nf) == 0 || (len(nf) == 1 && len(nf[0]) == 0))

	// the receiver may have been used before: any previous payload, with or without spare capacity
	var pkt OpusPacket
	if pre := verifCase("pre", 0, 2); pre > 0 {
		pkt.Payload = make([]byte, 3*(pre-1), 4)
		verifHavoc("pre.payload", pkt.Payload)
	}
	out, err := pkt.Unmarshal(in)
	if n == 0 {
		verifAssert("C16.opus.reject-empty", err != nil)
		verifCover("C16.opus.empty")
	} else {
		verifAssert("C16.opus.accept", err == nil)
		verifAssert("C16.opus.unchanged", verifEqBytes(out, in))
		verifAssert("C16.opus.field", verifEqBytes(pkt.Payload, in))
		verifCover("C16.opus.accept")
	}
	_, err = pkt.Unmarshal(nil)
	verifAssert("C16.opus.reject-nil", err != nil)
	// a second, shorter packet on the same receiver
	in2 := verifBytes("in2", 1)
	out2, err := pkt.Unmarshal(in2)
	verifAssert("C16.opus.second-accept", err == nil)
	verifAssert("C16.opus.second-unchanged", verifEqBytes(out2, in2))
	verifAssert("C16.opus.second-field", verifEqBytes(pkt.Payload, in2))
	verifAssert("C16.opus.head", pkt.IsPartitionHead(in))
	verifAssert("C16.opus.tail", pkt.IsPartitionTail(verifBool("marker"), in))
	verifAssert("C16.opus.head-checker", (&OpusPartitionHeadChecker{}).IsPartitionHead(in))
	verifCover("C16.opus.end")
}

// inputs longer than 64 KiB: offsets do not fit 16 bits
func VerifC16Long() {
	n := verifPick("len", []int{65537, 80010})
	mtu := uint16(verifPick("mtu", []int{65535, 40000, 30011}))
	in := verifLongFrame(n, false)
	if verifCase("codec", 0, 1) == 0 {
		verifC16Split((&G711Payloader{}).Payload(mtu, in), in, mtu, "g711.long")
	} else {
		verifC16Split((&G722Payloader{}).Payload(mtu, in), in, mtu, "g722.long")
	}
	verifCover("C16.long.end")
}

// Opus payloads across the whole 0..10000 range the property names (the frame
// size limits of RFC 6716 are not the depacketizer's business): every TOC byte
func VerifC16OpusLong() {
	n := verifPick("len", []int{1275, 1276, 1277, 2552, 2553, 2554, 10000})
	in := verifLongFrame(n, false)
	in[1] = verifU8("second")
	var pkt OpusPacket
	out, err := pkt.Unmarshal(in)
	verifAssert("C16.opuslong.accept", err == nil)
	verifAssert("C16.opuslong.unchanged", verifEqBytes(out, in) && verifEqBytes(pkt.Payload, in))
	frags := (&OpusPayloader{}).Payload(verifU16("mtu"), in)
	verifAssert("C16.opuslong.one", len(frags) == 1 && verifEqBytes(frags[0], in) && verifDisjoint(frags[0], in))
	verifCover("C16.opuslong.end")
}
