package codecs

// C10 — H264 packetization is lossless and RFC 6184-shaped.

type verifNAL struct {
	hdr  uint8
	body []byte
}

func (u verifNAL) raw() []byte { return append([]byte{u.hdr}, u.body...) }
func (u verifNAL) size() int   { return 1 + len(u.body) }
func (u verifNAL) typ() uint8  { return u.hdr & 0x1F }

// verifAnnexBBody returns n symbolic bytes satisfying what emulation prevention
// guarantees for a NAL unit body: no two consecutive zero bytes, last byte non-zero.
func verifAnnexBBody(n int) []byte {
	if n > 4096 {
		return verifLongFrame(n, true)
	}
	b := verifBytes("body", n)
	for i := 0; i+1 < n; i++ {
		verifAssume(b[i] != 0 || b[i+1] != 0)
	}
	if n > 0 {
		verifAssume(b[n-1] != 0)
	}
	return b
}

// class: 0 ordinary unit (types 1-23 except 7,8,9,12), 1 SPS, 2 PPS, 3 AUD or filler
func verifH264Unit(class, size int) verifNAL {
	var t uint8
	switch class {
	case 0:
		t = verifU8("type") & 0x1F
		verifAssume(t >= 1)
		verifAssume(t <= 23)
		verifAssume(t != 7)
		verifAssume(t != 8)
		verifAssume(t != 9)
		verifAssume(t != 12)
	case 1:
		t = 7
	case 2:
		t = 8
	default:
		t = 9
		if verifBool("filler") {
			t = 12
		}
	}
	nri := verifU8("nri") & 3
	return verifNAL{hdr: nri<<5 | t, body: verifAnnexBBody(size - 1)}
}

func verifAnnexB(stream []byte, u verifNAL, four bool) []byte {
	if four {
		stream = append(stream, 0)
	}
	stream = append(stream, 0, 0, 1)
	return append(stream, u.raw()...)
}

type verifH264Group struct {
	stap     bool
	sps, pps verifNAL
	u        verifNAL
}

// verifH264Model is the list model of the payloader: AUD/filler dropped,
// parameter sets held and sent as one STAP-A before the next ordinary unit.
type verifH264Model struct {
	stapA    bool
	sps, pps *verifNAL
	groups   []verifH264Group
}

func (m *verifH264Model) push(u verifNAL) {
	switch {
	case u.typ() == 9 || u.typ() == 12:
	case u.typ() == 7 && m.stapA:
		c := u
		m.sps = &c
	case u.typ() == 8 && m.stapA:
		c := u
		m.pps = &c
	default:
		if m.stapA && m.sps != nil && m.pps != nil {
			m.groups = append(m.groups, verifH264Group{stap: true, sps: *m.sps, pps: *m.pps})
			m.sps, m.pps = nil, nil
		}
		m.groups = append(m.groups, verifH264Group{u: u})
	}
}

func verifFrame(dst []byte, avc bool, u verifNAL) []byte {
	if avc {
		n := u.size()
		dst = append(dst, uint8(n>>24), uint8(n>>16), uint8(n>>8), uint8(n))
	} else {
		dst = append(dst, 0, 0, 0, 1)
	}
	return append(dst, u.raw()...)
}

var verifC10Menu = [][2]int{ // {class, size}; class 4 = SPS+PPS pair (size = SPS size, PPS is 2 bytes)
	{0, 2}, {0, 3}, {0, 6}, {4, 2}, {4, 4}, {3, 2}, {0, 9}, {0, 12},
}

// fixed item sequences for the dedicated harnesses (nil = free choice from the menu)
var verifC10Fixed [][2]int

// fixed MTU choices for the dedicated harnesses (nil = any MTU)
var verifC10MTUs []int

// one unit longer than 64 KiB: FU-A offsets do not fit 16 bits
func VerifC10LongUnit() {
	verifC10Fixed = [][2]int{{0, verifPick("size", []int{65540, 80010})}}
	verifC10MTUs = []int{65535, 40000, 30011}
	VerifC10RoundTrip()
	verifC10Fixed, verifC10MTUs = nil, nil
	verifCover("C10.long.end")
}

// SPS+PPS, then two ordinary units, split over calls in every way: state kept by
// the payloader after the parameter sets were flushed must not leak into later units
func VerifC10AfterKeyFrame() {
	verifC10Fixed = [][2]int{{4, 2}, {0, 2}, {0, 3}}
	VerifC10RoundTrip()
	verifC10Fixed = nil
}

// two key frames through one payloader: whatever is kept from the first pair of
// parameter sets (the second SPS and PPS may or may not equal the first) must
// not show up in the second
func VerifC10TwoKeyFrames() {
	verifC10Fixed = [][2]int{{4, 2}, {0, 2}, {4, 2}, {0, 2}}
	VerifC10RoundTrip()
	verifC10Fixed = nil
	verifCover("C10.two-keyframes.end")
}

// a key frame whose slice does not fit the MTU: the parameter sets still go
// out (as one STAP-A) in front of the FU-A run
func VerifC10KeyFrameFragmented() {
	verifC10Fixed = [][2]int{{4, 2}, {0, 12}}
	verifC10MTUs = []int{9, 11}
	VerifC10RoundTrip()
	verifC10Fixed, verifC10MTUs = nil, nil
	verifCover("C10.keyframe-fragmented.end")
}

// parameter sets followed by an AUD or filler and then a unit
func VerifC10DroppedAfterKeyFrame() {
	verifC10Fixed = [][2]int{{4, 2}, {3, 2}, {0, 2}}
	VerifC10RoundTrip()
	verifC10Fixed = nil
}

func VerifC10RoundTrip() {
	mtu := verifU16("mtu")
	verifAssume(mtu >= 3)
	if verifC10MTUs != nil {
		mtu = uint16(verifPick("mtu", verifC10MTUs))
	}
	pay := &H264Payloader{DisableStapA: verifCase("disableStapA", 0, 1) == 1}
	model := &verifH264Model{stapA: !pay.DisableStapA}
	dep := &H264Packet{IsAVC: verifCase("avc", 0, verifBound("C10.avc")) == 1}
	nitems := 0
	if verifC10Fixed != nil {
		nitems = len(verifC10Fixed)
	} else {
		nitems = verifCase("items", 1, verifBound("C10.items"))
	}
	split := verifCase("firstcall", 1, nitems) // items in the first call; the rest go to a second call
	var payloads [][]byte
	var stream []byte
	flush := func() {
		if len(stream) > 0 {
			payloads = append(payloads, pay.Payload(mtu, stream)...)
			stream = nil
		}
	}
	for it := 0; it < nitems; it++ {
		if it == split {
			flush()
			verifCover("C10.two-calls")
		}
		var m [2]int
		four := false
		if verifC10Fixed != nil {
			m = verifC10Fixed[it]
		} else {
			m = verifC10Menu[verifCase("item", 0, verifBound("C10.menu")-1)]
			four = verifCase("startcode4", 0, 1) == 1
		}
		if m[0] == 4 {
			sps, pps := verifH264Unit(1, m[1]), verifH264Unit(2, 2)
			stream = verifAnnexB(stream, sps, four)
			stream = verifAnnexB(stream, pps, false)
			model.push(sps)
			model.push(pps)
		} else {
			u := verifH264Unit(m[0], m[1])
			stream = verifAnnexB(stream, u, four)
			model.push(u)
		}
	}
	flush()

	// expected depacketizer output
	var want []byte
	tooBig := false
	for _, g := range model.groups {
		if g.stap {
			if 1+2+g.sps.size()+2+g.pps.size() > int(mtu) {
				tooBig = true
			}
			want = verifFrame(want, dep.IsAVC, g.sps)
			want = verifFrame(want, dep.IsAVC, g.pps)
		} else {
			want = verifFrame(want, dep.IsAVC, g.u)
		}
	}
	var got []byte
	for _, pl := range payloads {
		verifAssert("C10.mtu", len(pl) <= int(mtu))
		out, err := dep.Unmarshal(pl)
		verifAssert("C10.depacketize-noerr", err == nil)
		got = append(got, out...)
	}
	if verifKnown("KF-C10-stapa-over-mtu", tooBig) {
		verifCover("C10.stapa-over-mtu")
		verifAssert("C10.lossless", verifEqBytes(got, want))
		return
	}
	verifAssert("C10.lossless", verifEqBytes(got, want))

	// RFC 6184 shape of every payload
	i := 0
	for _, g := range model.groups {
		verifAssert("C10.walk.payload-available", i < len(payloads))
		pl := payloads[i]
		if g.stap {
			exp := []byte{0x78, 0, uint8(g.sps.size())}
			exp = append(exp, g.sps.raw()...)
			exp = append(exp, 0, uint8(g.pps.size()))
			exp = append(exp, g.pps.raw()...)
			verifAssert("C10.walk.stapa-type", pl[0]&0x1F == 24 && pl[0]&0x80 == 0)
			verifAssert("C10.walk.stapa-body", verifEqBytes(pl[1:], exp[1:]))
			verifAssert("C10.walk.stapa-head", dep.IsPartitionHead(pl))
			verifCover("C10.stapa")
			i++
			continue
		}
		u := g.u
		if pl[0]&0x1F != 28 {
			verifAssert("C10.walk.single", verifEqBytes(pl, u.raw()))
			verifAssert("C10.walk.single-head", dep.IsPartitionHead(pl))
			i++
			continue
		}
		// FU-A run
		var body []byte
		n := 0
		for {
			verifAssert("C10.walk.fu-available", i < len(payloads))
			f := payloads[i]
			verifAssert("C10.walk.fu-len", len(f) >= 3)
			verifAssert("C10.walk.fu-indicator", f[0] == u.hdr&0x60|28)
			verifAssert("C10.walk.fu-type", f[1]&0x1F == u.typ() && f[1]&0x20 == 0)
			verifAssert("C10.walk.fu-start", (f[1]&0x80 != 0) == (n == 0))
			verifAssert("C10.walk.fu-head", dep.IsPartitionHead(f) == (n == 0))
			body = append(body, f[2:]...)
			n++
			i++
			if f[1]&0x40 != 0 {
				break
			}
			verifAssert("C10.walk.fu-no-overrun", len(body) < len(u.body))
		}
		verifAssert("C10.walk.fu-at-least-two", n >= 2)
		verifAssert("C10.walk.fu-body", verifEqBytes(body, u.body))
		verifCover("C10.fua")
	}
	verifAssert("C10.walk.no-extra-payloads", i == len(payloads))
	verifCover("C10.roundtrip.end")
}

// (b) H264Packet decodes single / STAP-A / FU-A streams from an independent encoder
func VerifC10Decoder() {
	dep := &H264Packet{IsAVC: verifCase("avc", 0, 1) == 1}
	var want, got []byte
	feed := func(pl []byte) {
		out, err := dep.Unmarshal(pl)
		verifAssert("C10.dec.noerr", err == nil)
		got = append(got, out...)
	}
	switch verifCase("form", 0, 2) {
	case 0:
		u := verifH264Unit(0, verifCase("size", 2, 4))
		feed(u.raw())
		want = verifFrame(want, dep.IsAVC, u)
		verifCover("C10.dec.single")
	case 1:
		// STAP-A with 1..3 units of any type 1..23
		n := verifCase("units", 1, 3)
		pl := []byte{verifU8("stap.nri")&3<<5 | 24}
		for k := 0; k < n; k++ {
			// unit sizes on both sides of the 255/256 boundary of the 16-bit size field
			u := verifNAL{hdr: verifU8("hdr") & 0x7F, body: verifBytes("ubody", verifPick("usize", []int{1, 2, 3, 256, 300, 255}[:verifBound("C10.usizes")])-1)}
			verifAssume(u.typ() >= 1)
			verifAssume(u.typ() <= 23)
			pl = append(pl, uint8(u.size()>>8), uint8(u.size()))
			pl = append(pl, u.raw()...)
			want = verifFrame(want, dep.IsAVC, u)
		}
		feed(pl)
		verifCover("C10.dec.stapa")
	default:
		// FU-A: a unit of 3..6 bytes cut at every possible point into a start, an optional
		// middle and an end fragment; RFC 6184 5.8 lets an FU payload be empty
		u := verifH264Unit(0, verifCase("size", 3, 6))
		c1 := verifCase("cut1", 0, len(u.body))
		c2 := verifCase("cut2", c1, len(u.body))
		middle := c2 > c1 || verifCase("emptyMiddle", 0, 1) == 1
		type frag struct {
			lo, hi int
			fh     uint8
		}
		frags := []frag{{0, c1, 0x80}}
		if middle {
			frags = append(frags, frag{c1, c2, 0})
		}
		frags = append(frags, frag{c2, len(u.body), 0x40})
		for k, f := range frags {
			pl := append([]byte{u.hdr&0x60 | 28, f.fh | u.typ()}, u.body[f.lo:f.hi]...)
			verifAssert("C10.dec.fu-head", dep.IsPartitionHead(pl) == (k == 0))
			feed(pl)
			if f.lo == f.hi {
				verifCover("C10.dec.fua-empty-fragment")
			}
		}
		want = verifFrame(want, dep.IsAVC, u)
		verifCover("C10.dec.fua")
	}
	verifAssert("C10.dec.output", verifEqBytes(got, want))
	verifCover("C10.decoder.end")
}
