package codecs

// C08 — payloaders respect the MTU, never panic, and neither modify nor retain
// the input. (Panic-freedom is checked by the engine on every path.)

type verifPayloadFn func(mtu uint16, in []byte) [][]byte

func verifC08Call(tag string, pay verifPayloadFn, mtu uint16, in []byte, mtuExempt bool) [][]byte {
	snap := append([]byte{}, in...)
	frags := pay(mtu, in)
	verifAssert(tag+".input-unmodified", verifEqBytes(in, snap))
	for _, f := range frags {
		if !mtuExempt {
			verifAssert(tag+".mtu", len(f) <= int(mtu))
		}
		if len(in) > 0 {
			verifAssert(tag+".nonempty-fragment", len(f) >= 1)
		}
		verifAssert(tag+".owned", verifDisjoint(f, in))
	}
	return frags
}

func verifCopyFrags(frags [][]byte) [][]byte {
	out := make([][]byte, len(frags))
	for i, f := range frags {
		out[i] = append([]byte{}, f...)
	}
	return out
}

func verifSameFrags(tag string, a, b [][]byte) {
	verifAssert(tag+".count", len(a) == len(b))
	for i := range a {
		if i < len(b) {
			verifAssert(tag+".bytes", verifEqBytes(a[i], b[i]))
		}
	}
}

// verifC08Twin: instance a sees its first input overwritten after the call,
// twin b does not; fragments already returned and later output must agree.
func verifC08Twin(tag string, a, b verifPayloadFn, mtu uint16, in1, in2 []byte, exempt bool) {
	in1b := append([]byte{}, in1...)
	f1 := verifC08Call(tag+".call1", a, mtu, in1, exempt)
	f1snap := verifCopyFrags(f1)
	f1b := b(mtu, in1b)
	verifSameFrags(tag+".twin-call1", f1, f1b)
	verifHavoc("overwrite", in1)
	verifSameFrags(tag+".returned-fragments-stable", f1, f1snap)
	in2b := append([]byte{}, in2...)
	f2 := verifC08Call(tag+".call2", a, mtu, in2, exempt)
	f2b := b(mtu, in2b)
	verifSameFrags(tag+".later-output-independent", f2, f2b)
}

func verifC08Inputs(bound string) (uint16, []byte, []byte) {
	mtu := verifU16("mtu")
	in1 := verifBytes("in1", verifCase("len1", 0, verifBound(bound)))
	in2 := verifBytes("in2", verifCase("len2", 0, verifBound("C08.len2")))
	return mtu, in1, in2
}

func VerifC08Audio() {
	mtu, in1, in2 := verifC08Inputs("C08.len.audio")
	switch verifCase("codec", 0, 2) {
	case 0:
		a, b := &G711Payloader{}, &G711Payloader{}
		verifC08Twin("C08.g711", a.Payload, b.Payload, mtu, in1, in2, false)
	case 1:
		a, b := &G722Payloader{}, &G722Payloader{}
		verifC08Twin("C08.g722", a.Payload, b.Payload, mtu, in1, in2, false)
	default:
		a, b := &OpusPayloader{}, &OpusPayloader{}
		verifC08Twin("C08.opus", a.Payload, b.Payload, mtu, in1, in2, true)
	}
	// nil input never panics
	_ = (&G711Payloader{}).Payload(mtu, nil)
	_ = (&G722Payloader{}).Payload(mtu, nil)
	_ = (&OpusPayloader{}).Payload(mtu, nil)
	verifCover("C08.audio.end")
}

func VerifC08VP8() {
	mtu, in1, in2 := verifC08Inputs("C08.len.vp")
	en := verifCase("pictureid", 0, 1) == 1
	id := verifU16("id") & 0x7FFF
	a, b := &VP8Payloader{EnablePictureID: en, pictureID: id}, &VP8Payloader{EnablePictureID: en, pictureID: id}
	verifC08Twin("C08.vp8", a.Payload, b.Payload, mtu, in1, in2, false)
	_ = (&VP8Payloader{}).Payload(mtu, nil)
	verifCover("C08.vp8.end")
}

func VerifC08VP9() {
	mtu, in1, in2 := verifC08Inputs("C08.len.vp")
	flex := verifCase("flexible", 0, 1) == 1
	id := verifU16("id")
	idfn := func() uint16 { return id }
	a, b := &VP9Payloader{FlexibleMode: flex, InitialPictureIDFn: idfn}, &VP9Payloader{FlexibleMode: flex, InitialPictureIDFn: idfn}
	verifC08Twin("C08.vp9", a.Payload, b.Payload, mtu, in1, in2, false)
	_ = (&VP9Payloader{FlexibleMode: flex, InitialPictureIDFn: idfn}).Payload(mtu, nil)
	verifCover("C08.vp9.end")
}

// non-flexible VP9 on inputs that start with a well-formed key-frame header
func VerifC08VP9KeyFrame() {
	mtu := verifU16("mtu")
	// frame marker 2, profile 0, show_existing 0, key frame, sync code, colour config, 32 bits of size
	in1 := []byte{0x82, 0x49, 0x83, 0x42, verifU8("cc"), verifU8("w0"), verifU8("w1"), verifU8("h0"), verifU8("h1"), verifU8("x0")}
	in1[0] |= verifU8("flags") & 0x03
	in1 = append(in1, verifBytes("rest", verifCase("rest", 0, 3))...)
	in2 := verifBytes("in2", verifCase("len2", 0, verifBound("C08.len2")))
	id := verifU16("id")
	idfn := func() uint16 { return id }
	a, b := &VP9Payloader{InitialPictureIDFn: idfn}, &VP9Payloader{InitialPictureIDFn: idfn}
	verifC08Twin("C08.vp9kf", a.Payload, b.Payload, mtu, in1, in2, false)
	verifCover("C08.vp9kf.end")
}

func VerifC08H264() {
	mtu, in1, in2 := verifC08Inputs("C08.len.nal")
	dis := verifCase("disableStapA", 0, 1) == 1
	a, b := &H264Payloader{DisableStapA: dis}, &H264Payloader{DisableStapA: dis}
	verifC08Twin("C08.h264", a.Payload, b.Payload, mtu, in1, in2, false)
	_ = (&H264Payloader{}).Payload(mtu, nil)
	verifCover("C08.h264.end")
}

// inputs seeded with start codes: parameter sets in the first call, a slice in the second
func VerifC08H264State() {
	mtu := verifU16("mtu")
	in1 := []byte{0, 0, 1, 0x67, verifU8("sps1"), 0, 0, 1, 0x68, verifU8("pps1")}
	in2 := []byte{0, 0, 1, 0x65, verifU8("idr1"), verifU8("idr2")}
	a, b := &H264Payloader{}, &H264Payloader{}
	verifC08Twin("C08.h264state", a.Payload, b.Payload, mtu, in1, in2, false)
	verifCover("C08.h264state.end")
}

func VerifC08H265() {
	mtu, in1, in2 := verifC08Inputs("C08.len.nal")
	donl := verifCase("donl", 0, 1) == 1
	skip := verifCase("skipAggregation", 0, 1) == 1
	d0 := verifU16("donl0")
	a, b := &H265Payloader{AddDONL: donl, SkipAggregation: skip, donl: d0}, &H265Payloader{AddDONL: donl, SkipAggregation: skip, donl: d0}
	verifC08Twin("C08.h265", a.Payload, b.Payload, mtu, in1, in2, false)
	_ = (&H265Payloader{}).Payload(mtu, nil)
	verifCover("C08.h265.end")
}

// two or three NAL units separated by start codes (aggregation path, with a
// flush in the middle when the MTU is small)
func VerifC08H265Aggregation() {
	mtu := verifU16("mtu")
	sizes := [][]int{{3, 3}, {2, 6, 2}, {3, 4, 3}, {10, 3, 3}}[verifCase("units", 0, verifBound("C08.aggshapes")-1)]
	var in1 []byte
	for _, n := range sizes {
		u := verifBytes("unit", n)
		in1 = append(in1, 0, 0, 1, u[0]&0x7F)
		in1 = append(in1, u[1:]...)
	}
	in2 := []byte{0, 0, 1, verifU8("c0") & 0x7F, verifU8("c1"), verifU8("c2")}
	donl := verifCase("donl", 0, 1) == 1
	a, b := &H265Payloader{AddDONL: donl}, &H265Payloader{AddDONL: donl}
	verifC08Twin("C08.h265agg", a.Payload, b.Payload, mtu, in1, in2, false)
	verifCover("C08.h265agg.end")
}

func VerifC08AV1() {
	in1 := verifBytes("in1", verifCase("len1", 0, verifBound("C08.len.av1")))
	in2 := verifBytes("in2", verifCase("len2", 0, verifBound("C08.len2.av1")))
	// the AV1 payloader reserves cap = MTU per packet, so the MTU is kept small enough to enumerate
	mtu := verifU16("mtu")
	verifAssume(int(mtu) <= len(in1)+4)
	a, b := &AV1Payloader{}, &AV1Payloader{}
	verifC08Twin("C08.av1", a.Payload, b.Payload, mtu, in1, in2, false)
	_ = (&AV1Payloader{}).Payload(mtu, nil)
	verifCover("C08.av1.end")
}

// inputs longer than 64 KiB (offsets beyond 16 bits) through every payloader
// that takes raw media: bound, no panic, input untouched
func VerifC08Long() {
	n := verifPick("len", []int{65537, 80010})
	mtu := uint16(verifPick("mtu", []int{65535, 40000, 1500}))
	in := verifLongFrame(n, true)
	var pay verifPayloadFn
	switch verifCase("codec", 0, 3) {
	case 0:
		pay = (&G711Payloader{}).Payload
	case 1:
		pay = (&G722Payloader{}).Payload
	case 2:
		pay = (&VP8Payloader{EnablePictureID: verifBool("pictureid")}).Payload
	default:
		in[0] = 0x84 // VP9 profile 0 inter frame
		pay = (&VP9Payloader{FlexibleMode: verifBool("flexible"), InitialPictureIDFn: func() uint16 { return 3 }}).Payload
	}
	frags := verifC08Call("C08.long", pay, mtu, in, false)
	total := 0
	for _, f := range frags {
		total += len(f)
	}
	verifAssert("C08.long.nothing-lost", total >= n)
	verifCover("C08.long.end")
}

// an OBU whose size field is an over-long LEB128 (9 to 11 bytes, continuation
// bits forced, the value bits of the first, the last-but-one and the last byte symbolic): the payloader neither panics nor exceeds the MTU
func VerifC08AV1LongLeb128() {
	k := verifCase("continuation-bytes", 8, 10)
	in := []byte{verifU8("obu.header")&0x7D | 0x02} // forbidden bit clear, has_size_field set
	for i := 0; i < k; i++ {
		b := uint8(0x80)
		if i == 0 || i == k-1 {
			b |= verifU8("leb.byte") // value bits of the first and the last continuation byte
		}
		in = append(in, b)
	}
	in = append(in, verifU8("leb.last")&0x7F)
	in = append(in, verifBytes("tail", verifCase("tail", 0, 2))...)
	mtu := uint16(verifPick("mtu", []int{2, 5, 64}))
	_ = verifC08Call("C08.av1leb", (&AV1Payloader{}).Payload, mtu, in, false)
	verifCover("C08.av1leb.end")
}
