package codecs

// C09 — depacketizers are panic-free, reuse-safe and own the state they retain.
// Panic-freedom is checked by the engine on every path; the receiver starts in
// an arbitrary state (inductive step), so call histories of any length are covered.

func verifC09Payload(bound string) []byte {
	n := verifCase("plen", -1, verifBound(bound))
	if n < 0 {
		return nil
	}
	return verifBytes("payload", n)
}

func verifStale(name string) []byte {
	n := verifCase(name+".len", -1, 2)
	if n < 0 {
		return nil
	}
	return verifBytes(name, n)
}

func VerifC09H264NoPanic() {
	d := &H264Packet{IsAVC: verifBool("avc"), fuaBuffer: verifStale("fua")}
	pl := verifC09Payload("C09.len")
	_, _ = d.Unmarshal(pl)
	_ = d.IsPartitionHead(pl)
	_ = d.IsPartitionTail(verifBool("marker"), pl)
	_ = (&H264PartitionHeadChecker{}).IsPartitionHead(pl)
	_ = d.IsDetectedFinalPacketInSequence(verifBool("marker2"))
	// a second call on the state the first one left
	_, _ = d.Unmarshal(verifBytes("second", verifCase("second.len", 0, 3)))
	verifCover("C09.h264.end")
}

func verifH265Touch(p *H265Packet) {
	switch k := p.Packet().(type) {
	case *H265SingleNALUnitPacket:
		_, _, _ = k.PayloadHeader(), k.DONL(), k.Payload()
		verifCover("C09.h265.single")
	case *H265AggregationPacket:
		if f := k.FirstUnit(); f != nil {
			_, _, _ = f.DONL(), f.NALUSize(), f.NalUnit()
		}
		for _, u := range k.OtherUnits() {
			_, _, _ = u.DOND(), u.NALUSize(), u.NalUnit()
		}
		verifCover("C09.h265.aggregation")
	case *H265FragmentationUnitPacket:
		h := k.FuHeader()
		_, _, _, _, _, _ = k.PayloadHeader(), h.S(), h.E(), h.FuType(), k.DONL(), k.Payload()
		verifCover("C09.h265.fu")
	case *H265PACIPacket:
		_, _, _, _, _, _, _ = k.A(), k.CType(), k.PHSsize(), k.F0(), k.F1(), k.F2(), k.Y()
		_, _, _ = k.PHES(), k.Payload(), k.PayloadHeader()
		if t := k.TSCI(); t != nil {
			_, _, _, _, _ = t.TL0PICIDX(), t.IrapPicID(), t.S(), t.E(), t.RES()
		}
		verifCover("C09.h265.paci")
	}
}

func VerifC09H265() {
	donl := verifCase("donl", 0, 1) == 1
	pl := verifC09Payload("C09.len")
	used := &H265Packet{}
	used.WithDONL(donl)
	// bring the receiver into a used state: an arbitrary short payload, or a well-formed
	// FU start fragment (which carries DONL when enabled)
	if verifCase("earlier.kind", 0, 1) == 0 {
		_, _ = used.Unmarshal(verifBytes("earlier", verifCase("earlier.len", 0, 4)))
	} else {
		fuStart := []byte{49 << 1, verifU8("earlier.h1")&0xF8 | 1, 0x80 | verifU8("earlier.type")&0x3F, verifU8("earlier.d0"), verifU8("earlier.d1"), verifU8("earlier.b0"), verifU8("earlier.b1")}
		_, _ = used.Unmarshal(fuStart)
		verifCover("C09.h265.after-fu-start")
	}
	_, errU := used.Unmarshal(pl)
	fresh := &H265Packet{}
	fresh.WithDONL(donl)
	_, errF := fresh.Unmarshal(pl)
	verifAssert("C09.h265.reuse-errorness", (errU == nil) == (errF == nil))
	_ = used.IsPartitionHead(pl)
	_ = used.IsPartitionTail(verifBool("marker"), pl)
	if errU == nil && errF == nil {
		verifH265Touch(used)
		verifH265Touch(fresh)
		// same kind of packet and same payload header on both receivers
		switch u := used.Packet().(type) {
		case *H265SingleNALUnitPacket:
			f, ok := fresh.Packet().(*H265SingleNALUnitPacket)
			verifAssert("C09.h265.reuse-kind", ok)
			verifAssert("C09.h265.reuse-single", u.PayloadHeader() == f.PayloadHeader() && verifEqBytes(u.Payload(), f.Payload()) && (u.DONL() == nil) == (f.DONL() == nil))
		case *H265FragmentationUnitPacket:
			f, ok := fresh.Packet().(*H265FragmentationUnitPacket)
			verifAssert("C09.h265.reuse-kind", ok)
			verifAssert("C09.h265.reuse-fu", u.PayloadHeader() == f.PayloadHeader() && u.FuHeader() == f.FuHeader() && verifEqBytes(u.Payload(), f.Payload()))
			verifAssert("C09.h265.reuse-fu-donl", (u.DONL() == nil) == (f.DONL() == nil))
			if u.DONL() != nil && f.DONL() != nil {
				verifAssert("C09.h265.reuse-fu-donl-value", *u.DONL() == *f.DONL())
			}
		case *H265AggregationPacket:
			f, ok := fresh.Packet().(*H265AggregationPacket)
			verifAssert("C09.h265.reuse-kind", ok)
			verifAssert("C09.h265.reuse-ap", len(u.OtherUnits()) == len(f.OtherUnits()) && verifEqBytes(u.FirstUnit().NalUnit(), f.FirstUnit().NalUnit()))
		case *H265PACIPacket:
			f, ok := fresh.Packet().(*H265PACIPacket)
			verifAssert("C09.h265.reuse-kind", ok)
			verifAssert("C09.h265.reuse-paci", u.PayloadHeader() == f.PayloadHeader() && verifEqBytes(u.Payload(), f.Payload()) && verifEqBytes(u.PHES(), f.PHES()))
		}
		verifCover("C09.h265.accept")
	}
	verifCover("C09.h265.end")
}

func VerifC09VP8() {
	pl := verifC09Payload("C09.len")
	used := &VP8Packet{X: verifU8("x"), N: verifU8("n"), S: verifU8("s"), PID: verifU8("pid"), I: verifU8("i"), L: verifU8("l"), T: verifU8("t"), K: verifU8("k"),
		PictureID: verifU16("picid"), TL0PICIDX: verifU8("tl0"), TID: verifU8("tid"), Y: verifU8("y"), KEYIDX: verifU8("keyidx"), Payload: verifStale("stale")}
	fresh := &VP8Packet{}
	outU, errU := used.Unmarshal(pl)
	outF, errF := fresh.Unmarshal(pl)
	verifAssert("C09.vp8.reuse-errorness", (errU == nil) == (errF == nil))
	_ = used.IsPartitionHead(pl)
	_ = used.IsPartitionTail(verifBool("marker"), pl)
	if errU == nil && errF == nil {
		verifAssert("C09.vp8.reuse-bytes", verifEqBytes(outU, outF) && verifEqBytes(used.Payload, fresh.Payload))
		verifAssert("C09.vp8.reuse-flags", used.X == fresh.X && used.N == fresh.N && used.S == fresh.S && used.PID == fresh.PID && used.I == fresh.I && used.L == fresh.L && used.T == fresh.T && used.K == fresh.K)
		verifAssert("C09.vp8.reuse-fields", used.PictureID == fresh.PictureID && used.TL0PICIDX == fresh.TL0PICIDX && used.TID == fresh.TID && used.Y == fresh.Y && used.KEYIDX == fresh.KEYIDX)
		verifCover("C09.vp8.accept")
	}
	verifCover("C09.vp8.end")
}

func verifU8Slice(a, b []uint8) bool { return verifEqBytes(a, b) }

func VerifC09VP9() {
	pl := verifC09Payload("C09.len.vp9")
	used := &VP9Packet{}
	// a receiver that has decoded something before: arbitrary scalar fields and stale lists
	used.I, used.P, used.L, used.F, used.B, used.E, used.V, used.Z = verifBool("i"), verifBool("p"), verifBool("l"), verifBool("f"), verifBool("b"), verifBool("e"), verifBool("v"), verifBool("z")
	used.PictureID, used.TID, used.U, used.SID, used.D, used.TL0PICIDX = verifU16("picid"), verifU8("tid"), verifBool("u"), verifU8("sid"), verifBool("d"), verifU8("tl0")
	used.NS, used.Y, used.G, used.NG = verifU8("ns"), verifBool("y"), verifBool("g"), verifU8("ng")
	if verifCase("stale-lists", 0, 1) == 1 {
		used.PDiff = []uint8{verifU8("pd0"), verifU8("pd1")}
		// more layers than most packets carry, with spare capacity behind them
		used.Width, used.Height = make([]uint16, 3, 8), make([]uint16, 3, 8)
		for i := range used.Width {
			used.Width[i], used.Height[i] = verifU16("w0"), verifU16("h0")
		}
		used.PGTID, used.PGU, used.PGPDiff = []uint8{verifU8("pgtid")}, []bool{verifBool("pgu")}, [][]uint8{{verifU8("pgpd")}}
	}
	fresh := &VP9Packet{}
	outU, errU := used.Unmarshal(pl)
	outF, errF := fresh.Unmarshal(pl)
	verifAssert("C09.vp9.reuse-errorness", (errU == nil) == (errF == nil))
	_ = used.IsPartitionHead(pl)
	_ = used.IsPartitionTail(verifBool("marker"), pl)
	_ = (&VP9PartitionHeadChecker{}).IsPartitionHead(pl)
	if errU == nil && errF == nil {
		verifAssert("C09.vp9.reuse-bytes", verifEqBytes(outU, outF))
		verifAssert("C09.vp9.reuse-flags", used.I == fresh.I && used.P == fresh.P && used.L == fresh.L && used.F == fresh.F && used.B == fresh.B && used.E == fresh.E && used.V == fresh.V && used.Z == fresh.Z)
		verifAssert("C09.vp9.reuse-picid", used.PictureID == fresh.PictureID)
		verifAssert("C09.vp9.reuse-layer", used.TID == fresh.TID && used.U == fresh.U && used.SID == fresh.SID && used.D == fresh.D && used.TL0PICIDX == fresh.TL0PICIDX)
		verifAssert("C09.vp9.reuse-pdiff", verifU8Slice(used.PDiff, fresh.PDiff))
		verifAssert("C09.vp9.reuse-ss", used.NS == fresh.NS && used.Y == fresh.Y && used.G == fresh.G && used.NG == fresh.NG)
		verifAssert("C09.vp9.reuse-res-count", len(used.Width) == len(fresh.Width) && len(used.Height) == len(fresh.Height))
		for i := range fresh.Width {
			verifAssert("C09.vp9.reuse-res", used.Width[i] == fresh.Width[i] && used.Height[i] == fresh.Height[i])
		}
		verifAssert("C09.vp9.reuse-pg-count", len(used.PGTID) == len(fresh.PGTID) && len(used.PGU) == len(fresh.PGU) && len(used.PGPDiff) == len(fresh.PGPDiff))
		for i := range fresh.PGTID {
			verifAssert("C09.vp9.reuse-pg", used.PGTID[i] == fresh.PGTID[i] && used.PGU[i] == fresh.PGU[i] && verifU8Slice(used.PGPDiff[i], fresh.PGPDiff[i]))
		}
		verifCover("C09.vp9.accept")
	}
	verifCover("C09.vp9.end")
}

func VerifC09Opus() {
	pl := verifC09Payload("C09.len")
	used := &OpusPacket{Payload: verifStale("stale")}
	fresh := &OpusPacket{}
	outU, errU := used.Unmarshal(pl)
	outF, errF := fresh.Unmarshal(pl)
	verifAssert("C09.opus.reuse-errorness", (errU == nil) == (errF == nil))
	if errU == nil && errF == nil {
		verifAssert("C09.opus.reuse-bytes", verifEqBytes(outU, outF) && verifEqBytes(used.Payload, fresh.Payload))
	}
	_ = used.IsPartitionHead(pl)
	_ = used.IsPartitionTail(verifBool("marker"), pl)
	verifCover("C09.opus.end")
}

func VerifC09AV1NoPanic() {
	d := &AV1Depacketizer{buffer: verifStale("buffer"), Z: verifBool("z"), Y: verifBool("y"), N: verifBool("n")}
	pl := verifC09Payload("C09.len.av1")
	_, _ = d.Unmarshal(pl)
	_ = d.IsPartitionHead(pl)
	_ = d.IsPartitionTail(verifBool("marker"), pl)
	_, _ = d.Unmarshal(verifBytes("second", verifCase("second.len", 0, verifBound("C09.len.av1.second"))))
	verifCover("C09.av1dep.end")
}

// a length field written as a maximal-length LEB128 (continuation bits forced,
// value bits symbolic): 10 or 11 bytes after the aggregation header
func VerifC09AV1LongLeb128() {
	hdr := verifU8("agghdr")
	n := verifCase("contbytes", 7, 9)
	pl := []byte{hdr}
	for i := 0; i < n; i++ {
		pl = append(pl, 0x80|verifU8("cont"))
	}
	pl = append(pl, verifU8("last")&0x7F)
	pl = append(pl, verifBytes("after", verifCase("after", 0, 1))...)
	d := &AV1Depacketizer{}
	_, _ = d.Unmarshal(pl)
	p := &AV1Packet{}
	_, _ = p.Unmarshal(pl)
	verifCover("C09.av1.longleb.end")
}

func VerifC09AV1PacketNoPanic() {
	p := &AV1Packet{}
	pl := verifC09Payload("C09.len.av1")
	_, err := p.Unmarshal(pl)
	if err == nil {
		verifCover("C09.av1pkt.accept")
	}
	// a second decode into the same (used) value
	_, _ = p.Unmarshal(verifBytes("second", verifCase("second.len", 0, 3)))
	verifCover("C09.av1pkt.end")
}

// ownership: state carried between calls is a private copy
func VerifC09H264Owned() {
	// FU-A start fragment, then its end fragment
	hdr := verifU8("indicator")&0x60 | 28
	typ := verifU8("type") & 0x1F
	in1 := append([]byte{hdr, 0x80 | typ}, verifBytes("frag1", verifCase("f1", 1, 3))...)
	in2 := append([]byte{hdr, 0x40 | typ}, verifBytes("frag2", verifCase("f2", 1, 2))...)
	avc := verifBool("avc")
	a, b := &H264Packet{IsAVC: avc}, &H264Packet{IsAVC: avc}
	in1b := append([]byte{}, in1...)
	o1, e1 := a.Unmarshal(in1)
	o1b, e1b := b.Unmarshal(in1b)
	verifAssert("C09.h264own.call1", (e1 == nil) == (e1b == nil) && verifEqBytes(o1, o1b))
	verifHavoc("overwrite", in1)
	o2, e2 := a.Unmarshal(in2)
	o2b, e2b := b.Unmarshal(append([]byte{}, in2...))
	verifAssert("C09.h264own.later-result-independent", (e2 == nil) == (e2b == nil) && verifEqBytes(o2, o2b))
	verifCover("C09.h264own.end")
}

func VerifC09AV1Owned() {
	// packet 1: one element (W=1) that continues in the next packet (Y=1); packet 2: Z=1, W=1
	in1 := append([]byte{0x50}, verifBytes("frag1", verifCase("f1", 1, 3))...)
	in1[1] &= 0x7D // forbidden bit clear, no size field in the transmitted OBU header
	in2 := append([]byte{0x90}, verifBytes("frag2", verifCase("f2", 1, 2))...)
	a, b := &AV1Depacketizer{}, &AV1Depacketizer{}
	in1b := append([]byte{}, in1...)
	o1, e1 := a.Unmarshal(in1)
	o1b, e1b := b.Unmarshal(in1b)
	verifAssert("C09.av1own.call1", (e1 == nil) == (e1b == nil) && verifEqBytes(o1, o1b))
	verifHavoc("overwrite", in1)
	o2, e2 := a.Unmarshal(in2)
	o2b, e2b := b.Unmarshal(append([]byte{}, in2...))
	verifAssert("C09.av1own.later-result-independent", (e2 == nil) == (e2b == nil) && verifEqBytes(o2, o2b))
	if e2 == nil && len(o2) > 0 {
		verifCover("C09.av1own.reassembled")
	}
	verifCover("C09.av1own.end")
}

// verifC09OwnedSeq feeds the packets to receiver a, overwriting each input as
// soon as its call has returned, and fresh copies to the twin b: every result
// must agree, however many packets the carried state spans.
func verifC09OwnedSeq(tag string, a, b func([]byte) ([]byte, error), ins [][]byte) {
	for i, in := range ins {
		cp := append([]byte{}, in...)
		oa, ea := a(in)
		ob, eb := b(cp)
		verifAssert(tag+".same-errorness", (ea == nil) == (eb == nil))
		verifAssert(tag+".same-output", verifEqBytes(oa, ob))
		if i == len(ins)-1 && ea == nil && len(oa) > 0 {
			verifCover(tag + ".output")
		}
		verifHavoc("overwrite", in)
	}
}

// three-packet fragment runs: the state kept after the middle packet is owned too
func VerifC09H264OwnedSeq() {
	hdr := verifU8("indicator")&0x60 | 28
	typ := verifU8("type") & 0x1F
	mid := verifU8("midflags") & 0xC0 // a middle fragment, or (lossy streams) another start or an end
	ins := [][]byte{
		append([]byte{hdr, 0x80 | typ}, verifBytes("frag1", verifCase("f1", 1, 2))...),
		append([]byte{hdr, mid | typ}, verifBytes("frag2", verifCase("f2", 1, 2))...),
		append([]byte{hdr, 0x40 | typ}, verifBytes("frag3", 1)...),
	}
	avc := verifBool("avc")
	a, b := &H264Packet{IsAVC: avc}, &H264Packet{IsAVC: avc}
	verifC09OwnedSeq("C09.h264seq", a.Unmarshal, b.Unmarshal, ins)
	verifCover("C09.h264seq.end")
}

func VerifC09AV1OwnedSeq() {
	// packet 1: W=1, Y=1; packet 2: Z=1, Y symbolic, one element or two (the first ends
	// the pending OBU, the second starts the next); packet 3: Z symbolic, W=1
	p1 := append([]byte{0x50}, verifBytes("frag1", verifCase("f1", 1, 2))...)
	p1[1] &= 0x7D
	var p2 []byte
	y2 := verifU8("y2") & 0x40
	if verifCase("elements2", 1, 2) == 1 {
		p2 = append([]byte{0x90 | y2}, verifBytes("frag2", 1)...)
	} else {
		p2 = []byte{0xA0 | y2, 1, verifU8("frag2.tail"), verifU8("frag2.head") & 0x7D, verifU8("frag2.body")}
	}
	p3 := []byte{verifU8("z3")&0x80 | 0x10, verifU8("frag3")}
	a, b := &AV1Depacketizer{}, &AV1Depacketizer{}
	verifC09OwnedSeq("C09.av1seq", a.Unmarshal, b.Unmarshal, [][]byte{p1, p2, p3})
	verifCover("C09.av1seq.end")
}

// aggregation packets beyond the reach of the arbitrary short payloads: a
// well-formed first unit followed by 0..4 arbitrary bytes, with and without DONL
func VerifC09H265AggregationTail() {
	donl := verifCase("donl", 0, 1) == 1
	pl := []byte{48 << 1, verifU8("h1")&0xF8 | 1}
	if donl {
		pl = append(pl, verifU8("donl.hi"), verifU8("donl.lo"))
	}
	first := verifCase("first.size", 1, 2)
	pl = append(pl, 0, uint8(first))
	pl = append(pl, verifBytes("first", first)...)
	pl = append(pl, verifBytes("tail", verifCase("tail", 0, 4))...)
	used, fresh := &H265Packet{}, &H265Packet{}
	used.WithDONL(donl)
	fresh.WithDONL(donl)
	_, _ = used.Unmarshal(verifBytes("earlier", verifCase("earlier.len", 0, 2)))
	_, errU := used.Unmarshal(pl)
	_, errF := fresh.Unmarshal(pl)
	verifAssert("C09.h265ap.reuse-errorness", (errU == nil) == (errF == nil))
	_ = used.IsPartitionHead(pl)
	if errU == nil && errF == nil {
		verifH265Touch(used)
		u, ok1 := used.Packet().(*H265AggregationPacket)
		f, ok2 := fresh.Packet().(*H265AggregationPacket)
		verifAssert("C09.h265ap.kind", ok1 && ok2)
		if ok1 && ok2 {
			verifAssert("C09.h265ap.same", len(u.OtherUnits()) == len(f.OtherUnits()) && verifEqBytes(u.FirstUnit().NalUnit(), f.FirstUnit().NalUnit()))
		}
		verifCover("C09.h265ap.accept")
	}
	verifCover("C09.h265ap.end")
}
