package codecs

// C15 — stateful depacketizers resynchronise at the next complete frame.
// The set of states any loss pattern or garbage history can leave behind is
// exactly "arbitrary buffered bytes (and flags)", so the receiver starts from a
// symbolic buffer and is compared packet by packet with a fresh receiver on an
// intact frame produced by an independent encoder.

func verifC15Compare(tag string, ua func([]byte) ([]byte, error), fa func([]byte) ([]byte, error), pkts [][]byte) {
	for _, pl := range pkts {
		ou, eu := ua(append([]byte{}, pl...))
		of, ef := fa(append([]byte{}, pl...))
		verifAssert(tag+".same-errorness", (eu == nil) == (ef == nil))
		if eu == nil && ef == nil {
			verifAssert(tag+".same-output", verifEqBytes(ou, of))
		}
	}
}

// verifC15History feeds the used receiver what was delivered of earlier frames:
// up to C15.history arbitrary byte strings of 1..4 bytes (results ignored). This
// reaches the states a receiver can actually get into, whatever fields it
// keeps them in; the symbolic start state below covers the known fields.
func verifC15History(ua func([]byte) ([]byte, error), n int) {
	for i := 0; i < n; i++ {
		_, _ = ua(verifBytes("history.packet", verifCase("history.len", 1, verifBound("C15.historylen"))))
	}
	if n > 0 {
		verifCover("C15.history")
	}
}

func VerifC15H264() {
	avc := verifCase("avc", 0, 1) == 1
	// either an arbitrary kept buffer, or a new receiver that is then fed arbitrary packets
	history := verifCase("history", 0, verifBound("C15.history"))
	used := &H264Packet{IsAVC: avc}
	if history == 0 {
		used.fuaBuffer = verifStale("stale")
	}
	fresh := &H264Packet{IsAVC: avc}
	var pkts [][]byte
	switch verifCase("frame", 0, 5) {
	case 0: // single NAL unit
		pkts = append(pkts, verifH264Unit(0, verifCase("size", 2, 3)).raw())
	case 1: // STAP-A with two units
		pl := []byte{0x78}
		for k := 0; k < 2; k++ {
			u := verifH264Unit(0, 2)
			pl = append(pl, 0, uint8(u.size()))
			pl = append(pl, u.raw()...)
		}
		pkts = append(pkts, pl)
	case 2: // a unit fragmented in two FU-A packets
		u := verifH264Unit(0, verifCase("size", 3, 4))
		cut := verifCase("cut", 1, len(u.body)-1)
		pkts = append(pkts, append([]byte{u.hdr&0x60 | 28, 0x80 | u.typ()}, u.body[:cut]...))
		pkts = append(pkts, append([]byte{u.hdr&0x60 | 28, 0x40 | u.typ()}, u.body[cut:]...))
		verifCover("C15.h264.fua")
	case 3: // FU-A in three packets followed by a single unit
		u := verifH264Unit(0, 4)
		pkts = append(pkts, append([]byte{u.hdr&0x60 | 28, 0x80 | u.typ()}, u.body[:1]...))
		pkts = append(pkts, append([]byte{u.hdr&0x60 | 28, u.typ()}, u.body[1:2]...))
		pkts = append(pkts, append([]byte{u.hdr&0x60 | 28, 0x40 | u.typ()}, u.body[2:]...))
		pkts = append(pkts, verifH264Unit(0, 2).raw())
	case 4: // a unit whose start fragment carries no payload (RFC 6184 5.8: an FU payload may be empty)
		u := verifH264Unit(0, 3)
		pkts = append(pkts, []byte{u.hdr&0x60 | 28, 0x80 | u.typ()})
		pkts = append(pkts, append([]byte{u.hdr&0x60 | 28, 0x40 | u.typ()}, u.body...))
		verifCover("C15.h264.empty-start")
	default: // a single unit (an SEI, say) and then a unit fragmented in two FU-A packets
		pkts = append(pkts, verifH264Unit(0, 2).raw())
		u := verifH264Unit(0, 3)
		pkts = append(pkts, append([]byte{u.hdr&0x60 | 28, 0x80 | u.typ()}, u.body[:1]...))
		pkts = append(pkts, append([]byte{u.hdr&0x60 | 28, 0x40 | u.typ()}, u.body[1:]...))
	}
	verifC15History(used.Unmarshal, history)
	verifC15Compare("C15.h264", used.Unmarshal, fresh.Unmarshal, pkts)
	verifCover("C15.h264.end")
}

// independent renderer of AV1 RTP packets for complete OBUs (no size field in
// the transmitted OBU header; aggregation header Z|Y|W|N)
func verifAV1OBU(name string, size int) []byte {
	b := verifBytes(name, size)
	if size > 0 {
		t := verifU8(name+".type") & 0x0F // any type, those a receiver must ignore included
		b[0] = t << 3                     // forbidden bit 0, no size field
		if size >= 2 && verifBool(name+".ext") {
			b[0] |= 0x04 // extension header: the second byte carries the layer ids
		}
	}
	return b
}

func VerifC15AV1() {
	history := verifCase("history", 0, verifBound("C15.history"))
	used := &AV1Depacketizer{}
	if history == 0 {
		used = &AV1Depacketizer{buffer: verifStale("stale"), Z: verifBool("z"), Y: verifBool("y"), N: verifBool("n")}
	}
	fresh := &AV1Depacketizer{}
	n := uint8(0)
	if verifBool("newSequence") {
		n = 0x08
	}
	var pkts [][]byte
	switch verifCase("frame", 0, 2) {
	case 0: // one OBU, one packet, W=1
		o := verifAV1OBU("obu", verifCase("size", 1, 3))
		pkts = append(pkts, append([]byte{0x10 | n}, o...))
	case 1: // two OBUs in one packet, W=2 (first length-prefixed)
		a, b := verifAV1OBU("obuA", verifCase("sizeA", 1, 2)), verifAV1OBU("obuB", verifCase("sizeB", 1, 2))
		pl := []byte{0x20 | n, uint8(len(a))}
		pl = append(pl, a...)
		pkts = append(pkts, append(pl, b...))
	default: // one OBU split over two packets: Y=1 then Z=1
		o := verifAV1OBU("obu", verifCase("size", 2, 4))
		cut := verifCase("cut", 1, len(o)-1)
		pkts = append(pkts, append([]byte{0x40 | 0x10 | n}, o[:cut]...))
		pkts = append(pkts, append([]byte{0x80 | 0x10}, o[cut:]...))
		verifCover("C15.av1.fragmented")
	}
	verifC15History(used.Unmarshal, history)
	verifC15Compare("C15.av1", used.Unmarshal, fresh.Unmarshal, pkts)
	verifCover("C15.av1.end")
}
