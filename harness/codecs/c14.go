package codecs

// C14 — H265 packetization is lossless and RFC 7798-shaped; the parser decodes
// every form.

type verifHEVC struct {
	h0, h1 uint8
	body   []byte
}

func (u verifHEVC) raw() []byte    { return append([]byte{u.h0, u.h1}, u.body...) }
func (u verifHEVC) size() int      { return 2 + len(u.body) }
func (u verifHEVC) typ() uint8     { return u.h0 >> 1 & 0x3F }
func (u verifHEVC) layerID() uint8 { return u.h0&1<<5 | u.h1>>3 }
func (u verifHEVC) tid() uint8     { return u.h1 & 7 }

// verifHEVCAllowTID0 is set by the harnesses that build RTP payloads directly
var verifHEVCAllowTID0 bool

func verifHEVCUnit(size int) verifHEVC {
	t := verifU8("type") & 0x3F
	verifAssume(t <= 47)
	layer := verifU8("layer") & 0x3F
	tid := verifU8("tid") & 7
	if !verifHEVCAllowTID0 {
		// in an Annex-B stream nuh_temporal_id_plus1 = 0 would let an all-zero NAL header run
		// into the start code; the independent packet encoder below has no such limit
		verifAssume(tid >= 1)
	}
	return verifHEVC{h0: t<<1 | layer>>5, h1: layer<<3 | tid, body: verifAnnexBBody(size - 2)}
}

var verifC14Sizes = []int{3, 4, 7, 10}

var verifC14FixedSizes []int

// three units sized so that the second does not fit next to the first but does fit
// with the third (aggregation after an overflow flush), and three equal small units
func VerifC14ThreeUnits() {
	if verifCase("shape", 0, 1) == 0 {
		verifC14FixedSizes = []int{10, 3, 3}
	} else {
		verifC14FixedSizes = []int{3, 4, 3}
	}
	VerifC14RoundTrip()
	verifC14FixedSizes = nil
}

// fixed MTU choices for the dedicated harnesses (nil = any MTU)
var verifC14MTUs []int

// one unit longer than 64 KiB: fragment offsets do not fit 16 bits
func VerifC14LongUnit() {
	verifC14FixedSizes = []int{verifPick("size", []int{65540, 80010})}
	verifC14MTUs = []int{65535, 40000, 30011}
	VerifC14RoundTrip()
	verifC14FixedSizes, verifC14MTUs = nil, nil
	verifCover("C14.long.end")
}

func VerifC14RoundTrip() {
	mtu := verifU16("mtu")
	verifAssume(mtu >= 4)
	if verifC14MTUs != nil {
		mtu = uint16(verifPick("mtu", verifC14MTUs))
	}
	pay := &H265Payloader{AddDONL: verifCase("donl", 0, 1) == 1, SkipAggregation: verifCase("skipAggregation", 0, 1) == 1, donl: verifU16("donl0")}
	if pay.AddDONL {
		// with DONL the smallest packet that carries payload is a 6-byte FU (3 header + 2 DONL + 1)
		verifAssume(mtu >= 6)
	}
	n := 0
	if verifC14FixedSizes != nil {
		n = len(verifC14FixedSizes)
	} else {
		n = verifCase("units", 1, verifBound("C14.units"))
	}
	var units []verifHEVC
	var stream []byte
	for i := 0; i < n; i++ {
		var u verifHEVC
		if verifC14FixedSizes != nil {
			u = verifHEVCUnit(verifC14FixedSizes[i])
		} else {
			u = verifHEVCUnit(verifC14Sizes[verifCase("size", 0, verifBound("C14.sizes")-1)])
			if verifCase("startcode4", 0, 1) == 1 {
				stream = append(stream, 0)
			}
		}
		stream = append(stream, 0, 0, 1)
		stream = append(stream, u.raw()...)
		units = append(units, u)
	}
	payloads := pay.Payload(mtu, stream)

	// reassemble per RFC 7798 through H265Packet
	dep := &H265Packet{}
	dep.WithDONL(pay.AddDONL)
	var got [][]byte
	var fu []byte
	fuCount := 0
	donlFragmented := false
	oneFragment := false
	for _, pl := range payloads {
		verifAssert("C14.mtu", len(pl) <= int(mtu))
		_, err := dep.Unmarshal(pl)
		verifAssert("C14.parse", err == nil)
		if _, isFU := dep.Packet().(*H265FragmentationUnitPacket); !isFU && fuCount > 0 {
			oneFragment = true // a fragment run was abandoned without an end fragment
			fu, fuCount = nil, 0
		}
		switch k := dep.Packet().(type) {
		case *H265SingleNALUnitPacket:
			h := k.PayloadHeader()
			got = append(got, append([]byte{uint8(h >> 8), uint8(h)}, k.Payload()...))
			verifAssert("C14.single.donl-placement", (k.DONL() != nil) == pay.AddDONL)
			verifAssert("C14.single.head", dep.IsPartitionHead(pl))
			verifCover("C14.single")
		case *H265AggregationPacket:
			verifAssert("C14.ap.type", pl[0]>>1&0x3F == 48 && pl[0]&0x80 == 0)
			verifAssert("C14.ap.at-least-two", len(k.OtherUnits()) >= 1)
			verifAssert("C14.ap.donl-placement", (k.FirstUnit().DONL() != nil) == pay.AddDONL)
			all := [][]byte{k.FirstUnit().NalUnit()}
			for _, o := range k.OtherUnits() {
				verifAssert("C14.ap.dond-placement", (o.DOND() != nil) == pay.AddDONL)
				all = append(all, o.NalUnit())
			}
			// the AP header carries the minimum layer id and TID of its units
			minL, minT := uint8(63), uint8(7)
			for _, a := range all {
				verifAssert("C14.ap.unit-len", len(a) >= 2)
				l, t := a[0]&1<<5|a[1]>>3, a[1]&7
				if l < minL {
					minL = l
				}
				if t < minT {
					minT = t
				}
				got = append(got, a)
			}
			verifAssert("C14.ap.layer", pl[0]&1<<5|pl[1]>>3 == minL)
			verifAssert("C14.ap.tid", pl[1]&7 == minT)
			verifAssert("C14.ap.head", dep.IsPartitionHead(pl))
			verifCover("C14.aggregation")
		case *H265FragmentationUnitPacket:
			ph, fh := k.PayloadHeader(), k.FuHeader()
			if fh.S() && fuCount > 0 {
				oneFragment = true // the previous run never ended
				fu, fuCount = nil, 0
			}
			verifAssert("C14.fu.type", ph.Type() == 49)
			verifAssert("C14.fu.start", fh.S() == (fuCount == 0))
			verifAssert("C14.fu.head", dep.IsPartitionHead(pl) == (fuCount == 0))
			if fuCount == 0 {
				// rebuild the NAL header: F, layer id, TID from the payload header, type from the FU header
				fu = []byte{uint8(ph>>8)&0x81 | fh.FuType()<<1, uint8(ph)}
			} else {
				verifAssert("C14.fu.same-unit", fu[0] == uint8(ph>>8)&0x81|fh.FuType()<<1 && fu[1] == uint8(ph))
				if pay.AddDONL {
					donlFragmented = true
				}
			}
			fu = append(fu, k.Payload()...)
			fuCount++
			if fh.E() {
				verifAssert("C14.fu.at-least-two", fuCount >= 2)
				got = append(got, fu)
				fu, fuCount = nil, 0
				verifCover("C14.fragmentation")
			}
		default:
			verifAssert("C14.known-kind", false)
		}
	}
	if fuCount != 0 {
		oneFragment = true // a fragment run that never ends
	}
	if verifKnown("KF-C14-donl-in-every-fu", donlFragmented) {
		verifCover("C14.kf.donl")
		verifAssert("C14.lossless", false)
		return
	}
	if verifKnown("KF-C14-single-fragment-fu", oneFragment) {
		verifCover("C14.kf.onefragment")
		verifAssert("C14.fu.terminated", false)
		return
	}
	verifAssert("C14.fu.terminated", fuCount == 0)
	verifAssert("C14.count", len(got) == len(units))
	for i := range units {
		if i < len(got) {
			verifAssert("C14.lossless", verifEqBytes(got[i], units[i].raw()))
		}
	}
	verifCover("C14.roundtrip.end")
}

// (b) header accessors against shift/mask formulas transcribed from RFC 7798
func VerifC14Accessors() {
	w := verifU16("payload-header")
	h := H265NALUHeader(w)
	verifAssert("C14.acc.F", h.F() == (w>>15 == 1))
	verifAssert("C14.acc.type", h.Type() == uint8(w>>9&0x3F))
	verifAssert("C14.acc.layer", h.LayerID() == uint8(w>>3&0x3F))
	verifAssert("C14.acc.tid", h.TID() == uint8(w&7))
	verifAssert("C14.acc.vcl", h.IsTypeVCLUnit() == (w>>9&0x3F < 32))
	verifAssert("C14.acc.kinds", h.IsAggregationPacket() == (w>>9&0x3F == 48) && h.IsFragmentationUnit() == (w>>9&0x3F == 49) && h.IsPACIPacket() == (w>>9&0x3F == 50))
	f := verifU8("fu-header")
	fh := H265FragmentationUnitHeader(f)
	verifAssert("C14.acc.fu", fh.S() == (f>>7 == 1) && fh.E() == (f>>6&1 == 1) && fh.FuType() == f&0x3F)

	// PACI: A | cType(6) | PHSsize(5) | F0 F1 F2 | Y, then PHES, then the payload
	phs := verifPick("phssize", []int{0, 1, 2, 3, 4, 15, 16, 17, 31, 5, 6, 7, 8, 24}[:verifBound("C14.phskinds")])
	pw := verifU16("paci-fields")&^(0x1F<<4) | uint16(phs)<<4
	phes := verifBytes("phes", phs)
	body := verifBytes("paci-body", verifCase("paci-bodylen", 1, 2))
	pkt := []byte{50 << 1, verifU8("paci-h1")&0xF8 | 1, uint8(pw >> 8), uint8(pw)}
	pkt = append(pkt, phes...)
	pkt = append(pkt, body...)
	var p H265PACIPacket
	_, err := p.Unmarshal(pkt)
	verifAssert("C14.paci.accept", err == nil)
	verifAssert("C14.paci.A", p.A() == (pw>>15 == 1))
	verifAssert("C14.paci.ctype", p.CType() == uint8(pw>>9&0x3F))
	verifAssert("C14.paci.phssize", int(p.PHSsize()) == phs)
	verifAssert("C14.paci.flags", p.F0() == (pw>>3&1 == 1) && p.F1() == (pw>>2&1 == 1) && p.F2() == (pw>>1&1 == 1) && p.Y() == (pw&1 == 1))
	verifAssert("C14.paci.phes", verifEqBytes(p.PHES(), phes))
	verifAssert("C14.paci.payload", verifEqBytes(p.Payload(), body))
	t := p.TSCI()
	if pw>>3&1 == 1 && phs >= 3 {
		// TSCI: TL0PICIDX(8) IrapPicID(8) S E RES(6) are the first three PHES octets
		verifAssert("C14.tsci.present", t != nil)
		verifAssert("C14.tsci.tl0picidx", t.TL0PICIDX() == phes[0])
		verifAssert("C14.tsci.irappicid", t.IrapPicID() == phes[1])
		verifAssert("C14.tsci.s", t.S() == (phes[2]>>7 == 1))
		verifAssert("C14.tsci.e", t.E() == (phes[2]>>6&1 == 1))
		verifAssert("C14.tsci.res", t.RES() == phes[2]&0x3F)
		verifCover("C14.tsci")
	} else {
		verifAssert("C14.tsci.absent", t == nil)
	}
	// every truncation of the PACI packet that cuts into header, PHES or the first payload byte is rejected
	for cut := 0; cut <= 4+phs; cut++ {
		var q H265PACIPacket
		_, err := q.Unmarshal(pkt[:cut])
		verifAssert("C14.paci.truncated", err != nil)
	}
	verifCover("C14.accessors.end")
}

// (c) independent encoder of single / AP / FU payloads with and without DONL, and their truncations
func VerifC14Decoder() {
	verifHEVCAllowTID0 = true
	defer func() { verifHEVCAllowTID0 = false }()
	donl := verifCase("donl", 0, 1) == 1
	dep := &H265Packet{}
	dep.WithDONL(donl)
	if verifCase("used", 0, 1) == 1 {
		// the receiver has decoded a single NAL unit packet and a starting FU before
		wu := verifHEVCUnit(3)
		wd := verifBytes("warm.donl", 2)
		single, fu := []byte{wu.h0, wu.h1}, []byte{wu.h0&0x81 | 49<<1, wu.h1, 0x80 | wu.typ()}
		if donl {
			single, fu = append(single, wd...), append(fu, wd...)
		}
		_, _ = dep.Unmarshal(append(single, wu.body...))
		_, _ = dep.Unmarshal(append(fu, wu.body...))
	}
	switch verifCase("form", 0, 2) {
	case 0:
		u := verifHEVCUnit(verifCase("size", 3, 5))
		pl := []byte{u.h0, u.h1}
		d := verifU16("donl")
		if donl {
			pl = append(pl, uint8(d>>8), uint8(d))
		}
		pl = append(pl, u.body...)
		_, err := dep.Unmarshal(pl)
		verifAssert("C14.dec.single.accept", err == nil)
		k, ok := dep.Packet().(*H265SingleNALUnitPacket)
		verifAssert("C14.dec.single.kind", ok)
		verifAssert("C14.dec.single.header", uint16(k.PayloadHeader()) == uint16(u.h0)<<8|uint16(u.h1))
		verifAssert("C14.dec.single.payload", verifEqBytes(k.Payload(), u.body))
		if donl {
			verifAssert("C14.dec.single.donl", k.DONL() != nil && *k.DONL() == d)
		} else {
			verifAssert("C14.dec.single.no-donl", k.DONL() == nil)
		}
		hdr := 2
		if donl {
			hdr = 4
		}
		for cut := 0; cut <= hdr; cut++ {
			_, err := (&H265Packet{mightNeedDONL: donl}).Unmarshal(pl[:cut])
			verifAssert("C14.dec.single.truncated", err != nil)
		}
		verifCover("C14.dec.single")
	case 1:
		n := verifCase("units", 2, 3)
		pl := []byte{48 << 1, verifU8("ap.h1")&0xF8 | 1}
		d := verifU16("donl")
		var units []verifHEVC
		var donds []uint8
		for i := 0; i < n; i++ {
			u := verifHEVCUnit(verifCase("size", 3, 4))
			if donl {
				if i == 0 {
					pl = append(pl, uint8(d>>8), uint8(d))
				} else {
					dd := verifU8("dond")
					donds = append(donds, dd)
					pl = append(pl, dd)
				}
			}
			pl = append(pl, 0, uint8(u.size()))
			pl = append(pl, u.raw()...)
			units = append(units, u)
		}
		_, err := dep.Unmarshal(pl)
		verifAssert("C14.dec.ap.accept", err == nil)
		k, ok := dep.Packet().(*H265AggregationPacket)
		verifAssert("C14.dec.ap.kind", ok)
		verifAssert("C14.dec.ap.first", verifEqBytes(k.FirstUnit().NalUnit(), units[0].raw()) && int(k.FirstUnit().NALUSize()) == units[0].size())
		verifAssert("C14.dec.ap.count", len(k.OtherUnits()) == n-1)
		for i, o := range k.OtherUnits() {
			verifAssert("C14.dec.ap.other", verifEqBytes(o.NalUnit(), units[i+1].raw()) && int(o.NALUSize()) == units[i+1].size())
			if donl {
				verifAssert("C14.dec.ap.dond", o.DOND() != nil && *o.DOND() == donds[i])
			} else {
				verifAssert("C14.dec.ap.no-dond", o.DOND() == nil)
			}
		}
		if donl {
			verifAssert("C14.dec.ap.donl", k.FirstUnit().DONL() != nil && *k.FirstUnit().DONL() == d)
		}
		// cut inside the second unit: fewer than two complete units is not an aggregation packet
		first := 2 + 2 + units[0].size()
		if donl {
			first += 2
		}
		for cut := 0; cut <= first+2; cut++ {
			_, err := (&H265Packet{mightNeedDONL: donl}).Unmarshal(pl[:cut])
			verifAssert("C14.dec.ap.truncated", err != nil)
		}
		verifCover("C14.dec.ap")
	default:
		u := verifHEVCUnit(verifCase("size", 3, 5))
		start := verifCase("start", 0, 1) == 1
		end := verifCase("end", 0, 1) == 1
		fh := u.typ()
		if start {
			fh |= 0x80
		}
		if end {
			fh |= 0x40
		}
		pl := []byte{u.h0&0x81 | 49<<1, u.h1, fh}
		d := verifU16("donl")
		if donl && start {
			pl = append(pl, uint8(d>>8), uint8(d))
		}
		pl = append(pl, u.body...)
		_, err := dep.Unmarshal(pl)
		verifAssert("C14.dec.fu.accept", err == nil)
		k, ok := dep.Packet().(*H265FragmentationUnitPacket)
		verifAssert("C14.dec.fu.kind", ok)
		verifAssert("C14.dec.fu.header", k.FuHeader().S() == start && k.FuHeader().E() == end && k.FuHeader().FuType() == u.typ())
		verifAssert("C14.dec.fu.payload-header", k.PayloadHeader().LayerID() == u.layerID() && k.PayloadHeader().TID() == u.tid() && k.PayloadHeader().Type() == 49)
		verifAssert("C14.dec.fu.payload", verifEqBytes(k.Payload(), u.body))
		if donl && start {
			verifAssert("C14.dec.fu.donl", k.DONL() != nil && *k.DONL() == d)
		} else {
			verifAssert("C14.dec.fu.no-donl", k.DONL() == nil)
		}
		hdr := 3
		if donl && start {
			hdr = 5
		}
		for cut := 0; cut <= hdr; cut++ {
			_, err := (&H265Packet{mightNeedDONL: donl}).Unmarshal(pl[:cut])
			verifAssert("C14.dec.fu.truncated", err != nil)
		}
		verifCover("C14.dec.fu")
	}
	verifCover("C14.decoder.end")
}

// raw shape of a fragmented unit, F bit included (H265Packet refuses F=1, so the
// payload bytes are inspected directly): type 49 payload header that keeps F,
// layer id and TID, FU header with the unit type, S first, E last, body intact
func VerifC14FUShape() {
	size := verifPick("size", []int{5, 9})
	u := verifHEVCUnit(size)
	u.h0 |= verifU8("F") & 0x80
	mtu := verifU16("mtu")
	verifAssume(mtu >= 4)
	verifAssume(int(mtu) <= size) // at least two fragments (a unit of MTU-1 bytes is KF-C14-single-fragment-fu)
	pay := &H265Payloader{SkipAggregation: verifCase("skipAggregation", 0, 1) == 1}
	payloads := pay.Payload(mtu, append([]byte{0, 0, 1}, u.raw()...))
	verifAssert("C14.shape.at-least-two", len(payloads) >= 2)
	var body []byte
	for i, pl := range payloads {
		verifAssert("C14.shape.mtu", len(pl) <= int(mtu) && len(pl) >= 4)
		verifAssert("C14.shape.payload-header", pl[0] == u.h0&0x81|49<<1 && pl[1] == u.h1)
		verifAssert("C14.shape.futype", pl[2]&0x3F == u.typ())
		verifAssert("C14.shape.S", (pl[2]&0x80 != 0) == (i == 0))
		verifAssert("C14.shape.E", (pl[2]&0x40 != 0) == (i == len(payloads)-1))
		body = append(body, pl[3:]...)
	}
	verifAssert("C14.shape.body", verifEqBytes(body, u.body))
	if u.h0&0x80 != 0 {
		verifCover("C14.shape.F")
	}
	verifCover("C14.shape.end")
}

// verifHEVCFixedUnit: symbolic header, fixed non-zero body (for differential harnesses
// that do not depend on the body bytes)
func verifHEVCFixedUnit(size int) verifHEVC {
	u := verifHEVCUnit(2)
	for i := 0; i < size-2; i++ {
		u.body = append(u.body, uint8(0x11*(i%14+1)))
	}
	return u
}

// AddDONL and SkipAggregation are exported fields: a change between two calls
// applies to the next call as if the payloader had been built that way
func VerifC14OptionChange() {
	mtu := uint16(verifCase("mtu", 8, 12))
	a0, s0 := verifCase("donl.before", 0, 1) == 1, verifCase("skip.before", 0, 1) == 1
	a1, s1 := verifCase("donl.after", 0, 1) == 1, verifCase("skip.after", 0, 1) == 1
	pay := &H265Payloader{AddDONL: a0, SkipAggregation: s0, donl: verifU16("donl0")}
	first := verifHEVCFixedUnit(verifPick("first.size", []int{3, 12}))
	_ = pay.Payload(mtu, append([]byte{0, 0, 1}, first.raw()...))
	pay.AddDONL, pay.SkipAggregation = a1, s1
	twin := &H265Payloader{AddDONL: a1, SkipAggregation: s1, donl: pay.donl}
	var stream []byte
	for _, n := range [][]int{{12}, {3, 3}, {3, 12}}[verifCase("second", 0, 2)] {
		stream = append(stream, 0, 0, 1)
		stream = append(stream, verifHEVCFixedUnit(n).raw()...)
	}
	got := pay.Payload(mtu, append([]byte{}, stream...))
	want := twin.Payload(mtu, append([]byte{}, stream...))
	verifAssert("C14.opt.count", len(got) == len(want))
	for i := range want {
		if i < len(got) {
			verifAssert("C14.opt.same-as-fresh", verifEqBytes(got[i], want[i]))
		}
	}
	if a0 != a1 {
		verifCover("C14.opt.donl-changed")
	}
	verifCover("C14.opt.end")
}
