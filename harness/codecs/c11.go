package codecs

// C11 — VP8 packetization is lossless and its descriptor decodes per RFC 7741.

func verifC11Frame(tag string, p *VP8Payloader, mtu uint16, id uint16, frame []byte) [][]byte {
	hdr := 1
	if p.EnablePictureID {
		hdr = 3
		if id >= 128 {
			hdr = 4
		}
	}
	verifAssume(int(mtu) > hdr)
	pkts := p.Payload(mtu, frame)
	verifAssert(tag+".some", len(pkts) >= 1)
	off := 0
	for i, raw := range pkts {
		verifAssert(tag+".mtu", len(raw) <= int(mtu))
		var d VP8Packet
		body, err := d.Unmarshal(raw)
		verifAssert(tag+".decodes", err == nil)
		verifAssert(tag+".S", (d.S == 1) == (i == 0))
		verifAssert(tag+".head", d.IsPartitionHead(raw) == (i == 0))
		verifAssert(tag+".PID", d.PID == 0)
		if p.EnablePictureID {
			verifAssert(tag+".pictureid-present", d.X == 1 && d.I == 1)
			verifAssert(tag+".pictureid", d.PictureID == id)
			// 7-bit form below 128, 15-bit form from 128
			verifAssert(tag+".pictureid-form", len(raw) >= hdr && (raw[2]&0x80 != 0) == (id >= 128))
			verifAssert(tag+".descriptor-size", len(raw)-len(body) == hdr)
		} else {
			verifAssert(tag+".plain-descriptor", d.X == 0 && len(raw)-len(body) == 1)
		}
		verifAssert(tag+".nonempty", len(body) >= 1)
		verifAssert(tag+".inrange", off+len(body) <= len(frame))
		verifAssert(tag+".bytes", verifEqBytes(body, frame[off:off+len(body)]))
		off += len(body)
	}
	verifAssert(tag+".lossless", off == len(frame))
	if len(pkts) > 1 {
		verifCover("C11.multi")
	}
	return pkts
}

func VerifC11Payloader() {
	n := verifCase("len", 1, verifBound("C11.len"))
	frame := verifBytes("frame", n)
	mtu := verifU16("mtu")
	p := &VP8Payloader{EnablePictureID: verifCase("pictureid", 0, 1) == 1}
	id := uint16(0)
	if p.EnablePictureID && verifCase("fresh", 0, 1) == 0 {
		// arbitrary point in the id sequence (inductive step); fresh = the zero value
		id = verifU16("id") & 0x7FFF
		p.pictureID = id
	}
	first := verifC11Frame("C11.f1", p, mtu, id, frame)
	var firstCopy [][]byte
	for _, pk := range first {
		firstCopy = append(firstCopy, append([]byte{}, pk...))
	}
	// the packets of an earlier frame stay as they were when later frames are payloaded
	defer func() {
		for i, pk := range first {
			verifAssert("C11.f1.stable-after-later-frames", verifEqBytes(pk, firstCopy[i]))
		}
	}()
	// the id advances with every frame, carried or not
	next := (id + 1) & 0x7FFF
	verifAssert("C11.id-advance", p.pictureID == next)
	if verifCase("toggle", 0, 1) == 1 {
		// EnablePictureID is an exported field: a change applies to the very next frame
		p.EnablePictureID = !p.EnablePictureID
		verifCover("C11.toggled")
	}
	if p.EnablePictureID {
		frame2 := verifBytes("frame2", 2)
		verifC11Frame("C11.f2", p, mtu, next, frame2)
		if next == 0 {
			verifCover("C11.id-wrap")
		}
		if id == 127 {
			verifCover("C11.id-127-128")
		}
		verifCover("C11.pictureid")
	} else if verifCase("toggle-off-frame", 0, 1) == 1 {
		verifC11Frame("C11.f2", p, mtu, next, verifBytes("frame2", 2))
	}
	verifCover("C11.payloader.end")
}

// independent RFC 7741 section 4.2 descriptor encoder
func VerifC11Descriptor() {
	x := verifCase("X", 0, 1) == 1
	var i, l, t, k, m bool
	if x {
		i, l, t, k = verifCase("I", 0, 1) == 1, verifCase("L", 0, 1) == 1, verifCase("T", 0, 1) == 1, verifCase("K", 0, 1) == 1
		if i {
			m = verifCase("M", 0, 1) == 1
		}
	}
	b0 := verifU8("b0")
	if x {
		b0 |= 0x80
	} else {
		b0 &^= 0x80
	}
	desc := []byte{b0}
	var picID uint16
	var tl0, tk uint8
	if x {
		xb := verifU8("xbyte") & 0x0F // reserved bits arbitrary
		if i {
			xb |= 0x80
		}
		if l {
			xb |= 0x40
		}
		if t {
			xb |= 0x20
		}
		if k {
			xb |= 0x10
		}
		desc = append(desc, xb)
		if i {
			picID = verifU16("picid")
			if m {
				picID &= 0x7FFF
				desc = append(desc, 0x80|uint8(picID>>8), uint8(picID))
			} else {
				picID &= 0x7F
				desc = append(desc, uint8(picID))
			}
		}
		if l {
			tl0 = verifU8("tl0picidx")
			desc = append(desc, tl0)
		}
		if t || k {
			tk = verifU8("tidykeyidx")
			desc = append(desc, tk)
		}
	}
	body := verifBytes("body", verifCase("bodylen", 0, 3))
	pkt := append(append([]byte{}, desc...), body...)
	// receiver with arbitrary earlier contents
	d := VP8Packet{X: verifU8("pre"), I: 1, L: 1, T: 1, K: 1, PictureID: verifU16("pre16"), TL0PICIDX: 9, TID: 3, Y: 1, KEYIDX: 31, N: 1, S: 1, PID: 7}
	// the documented performance mode must decode the same fields
	d.SetZeroAllocation(verifCase("zeroAllocation", 0, 1) == 1)
	out, err := d.Unmarshal(pkt)
	verifAssert("C11.d.accept", err == nil)
	verifAssert("C11.d.payload", verifEqBytes(out, body) && verifEqBytes(d.Payload, body))
	verifAssert("C11.d.X", (d.X == 1) == x)
	verifAssert("C11.d.N", d.N == b0>>5&1)
	verifAssert("C11.d.S", d.S == b0>>4&1)
	verifAssert("C11.d.PID", d.PID == b0&7)
	verifAssert("C11.d.flags", (d.I == 1) == i && (d.L == 1) == l && (d.T == 1) == t && (d.K == 1) == k)
	verifAssert("C11.d.pictureid", d.PictureID == picID)
	verifAssert("C11.d.tl0", d.TL0PICIDX == tl0)
	if t {
		verifAssert("C11.d.tid", d.TID == tk>>6 && d.Y == tk>>5&1)
	} else {
		verifAssert("C11.d.no-tid", d.TID == 0 && d.Y == 0)
	}
	if k {
		verifAssert("C11.d.keyidx", d.KEYIDX == tk&0x1F)
	} else {
		verifAssert("C11.d.no-keyidx", d.KEYIDX == 0)
	}
	verifAssert("C11.d.head", d.IsPartitionHead(pkt) == (b0&0x10 != 0))
	// every proper prefix of the descriptor is rejected
	for cut := 0; cut < len(desc); cut++ {
		var e VP8Packet
		_, err := e.Unmarshal(desc[:cut])
		verifAssert("C11.d.truncated", err != nil)
	}
	var e VP8Packet
	_, err = e.Unmarshal(nil)
	verifAssert("C11.d.nil", err != nil)
	// the same receiver after a packet it rejected: a cut-short descriptor with other
	// flags, then the first packet again decodes to the same fields
	junk := []byte{0x80, verifU8("junk.flags") | 0x80, verifU8("junk.byte")}[:verifCase("junk.len", 1, 3)]
	if _, jerr := d.Unmarshal(junk); jerr != nil {
		verifCover("C11.d.rejected-in-between")
	}
	out, err = d.Unmarshal(pkt)
	verifAssert("C11.d.again.accept", err == nil && verifEqBytes(out, body))
	verifAssert("C11.d.again.flags", (d.X == 1) == x && (d.I == 1) == i && (d.L == 1) == l && (d.T == 1) == t && (d.K == 1) == k)
	verifAssert("C11.d.again.fields", d.PictureID == picID && d.TL0PICIDX == tl0 && d.N == b0>>5&1 && d.S == b0>>4&1 && d.PID == b0&7)
	if t {
		verifAssert("C11.d.again.tid", d.TID == tk>>6 && d.Y == tk>>5&1)
	} else {
		verifAssert("C11.d.again.no-tid", d.TID == 0 && d.Y == 0)
	}
	if k {
		verifAssert("C11.d.again.keyidx", d.KEYIDX == tk&0x1F)
	} else {
		verifAssert("C11.d.again.no-keyidx", d.KEYIDX == 0)
	}
	if len(desc) == 6 {
		verifCover("C11.d.longest")
	}
	verifCover("C11.descriptor.end")
}

// frames longer than 64 KiB: fragment offsets do not fit 16 bits
func VerifC11LongFrame() {
	n := verifPick("len", []int{65537, 80010})
	mtu := uint16(verifPick("mtu", []int{65535, 40000, 30011}))
	p := &VP8Payloader{EnablePictureID: verifCase("pictureid", 0, 1) == 1}
	verifC11Frame("C11.long", p, mtu, 0, verifLongFrame(n, false))
	verifCover("C11.long.end")
}
