package codecs

// C12 — VP9 packetization is lossless and its descriptor decodes per the VP9
// RTP payload format. The uncompressed frame headers are rendered by an
// independent bit writer in the harness.

type verifBits struct{ bits []uint8 } // one element per bit, value 0 or 1

func (w *verifBits) put(v uint32, n int) {
	for i := n - 1; i >= 0; i-- {
		w.bits = append(w.bits, uint8(v>>uint(i))&1)
	}
}

func (w *verifBits) bytes() []byte {
	for len(w.bits)%8 != 0 {
		w.bits = append(w.bits, verifU8("padbit")&1)
	}
	out := make([]byte, len(w.bits)/8)
	for i := range out {
		var b uint8
		for j := 0; j < 8; j++ {
			b |= w.bits[8*i+j] << uint(7-j)
		}
		out[i] = b
	}
	return out
}

type verifVP9Frame struct {
	data          []byte
	key           bool
	width, height uint16
}

// verifVP9Header renders a well-formed VP9 uncompressed header (VP9 bitstream
// specification section 6.2) followed by arbitrary frame bytes.
// verifVP9Shape records the structural choices of a rendered header so that a
// second frame of the same shape (other field values) needs no new case split
type verifVP9Shape struct {
	set      bool
	profile  int
	key      bool
	srgb     bool
	restSize int
}

func verifVP9Header() verifVP9Frame { return verifVP9HeaderOf(&verifVP9Shape{}) }

func verifVP9HeaderOf(sh *verifVP9Shape) verifVP9Frame {
	var w verifBits
	if !sh.set {
		sh.profile = verifCase("profile", 0, 3)
		sh.key = verifCase("keyframe", 0, 1) == 1
	}
	profile, key := sh.profile, sh.key
	w.put(2, 2) // frame_marker
	w.put(uint32(profile&1), 1)
	w.put(uint32(profile>>1), 1)
	if profile == 3 {
		w.put(0, 1) // reserved_zero
	}
	w.put(0, 1) // show_existing_frame = 0 (such headers carry no type or size: outside the domain)
	if key {
		w.put(0, 1)
	} else {
		w.put(1, 1)
	}
	w.put(uint32(verifU8("show_frame")), 1)
	w.put(uint32(verifU8("error_resilient")), 1)
	f := verifVP9Frame{key: key}
	if key {
		w.put(0x49, 8)
		w.put(0x83, 8)
		w.put(0x42, 8)
		if profile >= 2 {
			w.put(uint32(verifU8("ten_or_twelve_bit")), 1)
		}
		if !sh.set {
			sh.srgb = verifCase("srgb", 0, 1) == 1
		}
		srgb := sh.srgb
		if srgb {
			w.put(7, 3)
			if profile == 1 || profile == 3 {
				w.put(0, 1) // reserved_zero
			}
		} else {
			cs := verifU8("color_space") & 7
			verifAssume(cs != 7)
			w.put(uint32(cs), 3)
			w.put(uint32(verifU8("color_range")), 1)
			if profile == 1 || profile == 3 {
				w.put(uint32(verifU8("subsampling_x")), 1)
				w.put(uint32(verifU8("subsampling_y")), 1)
				w.put(0, 1) // reserved_zero
			}
		}
		wm1, hm1 := verifU16("width_minus_1"), verifU16("height_minus_1")
		// every size the 16-bit SS fields can express
		verifAssume(wm1 != 0xFFFF)
		verifAssume(hm1 != 0xFFFF)
		w.put(uint32(wm1), 16)
		w.put(uint32(hm1), 16)
		f.width, f.height = wm1+1, hm1+1
	}
	if !sh.set {
		sh.restSize = verifCase("rest", 0, verifBound("C12.rest"))
	}
	f.data = append(w.bytes(), verifBytes("rest", sh.restSize)...)
	sh.set = true
	return f
}

func verifC12Frame(tag string, p *VP9Payloader, mtu uint16, id uint16, fr verifVP9Frame) {
	pkts := p.Payload(mtu, fr.data)
	verifAssert(tag+".some", len(pkts) >= 1)
	off := 0
	for i, raw := range pkts {
		verifAssert(tag+".mtu", len(raw) <= int(mtu))
		var d VP9Packet
		body, err := d.Unmarshal(raw)
		verifAssert(tag+".decodes", err == nil)
		verifAssert(tag+".B", d.B == (i == 0))
		verifAssert(tag+".E", d.E == (i == len(pkts)-1))
		verifAssert(tag+".head", d.IsPartitionHead(raw) == (i == 0))
		verifAssert(tag+".pictureid", d.I && d.PictureID == id)
		verifAssert(tag+".pictureid-15bit", raw[1]&0x80 != 0)
		verifAssert(tag+".mode", d.F == p.FlexibleMode)
		if !p.FlexibleMode {
			verifAssert(tag+".P", d.P == !fr.key)
			if fr.key && i == 0 {
				verifAssert(tag+".ss-present", d.V && d.Y && d.NS == 0 && len(d.Width) == 1 && len(d.Height) == 1)
				verifAssert(tag+".ss-width", d.Width[0] == fr.width)
				verifAssert(tag+".ss-height", d.Height[0] == fr.height)
				verifCover("C12.ss")
			} else {
				verifAssert(tag+".no-ss", !d.V)
			}
		}
		verifAssert(tag+".nonempty", len(body) >= 1)
		verifAssert(tag+".inrange", off+len(body) <= len(fr.data))
		verifAssert(tag+".bytes", verifEqBytes(body, fr.data[off:off+len(body)]))
		off += len(body)
	}
	verifAssert(tag+".lossless", off == len(fr.data))
	if len(pkts) > 1 {
		verifCover("C12.multi")
	}
}

func VerifC12Payloader() {
	flex := verifCase("flexible", 0, 1) == 1
	rawID := verifU16("id") // the user-supplied start value may have bit 15 set; only 15 bits are used
	id := rawID & 0x7FFF
	p := &VP9Payloader{FlexibleMode: flex, InitialPictureIDFn: func() uint16 { return rawID }}
	mtu := verifU16("mtu")
	verifAssume(mtu >= 12) // room for the 11-byte descriptor of a key frame's first packet plus one byte
	var shape verifVP9Shape
	fr := verifVP9HeaderOf(&shape)
	verifC12Frame("C12.f1", p, mtu, id, fr)
	next := (id + 1) & 0x7FFF
	verifAssert("C12.id-advance", p.pictureID == next)
	// second frame: a short inter frame (profile 0: marker 10, profile 00, show_existing 0, non-key)
	fr2 := verifVP9Frame{data: []byte{0x84 | verifU8("f2.flags")&3, verifU8("f2.b1")}}
	verifC12Frame("C12.f2", p, mtu, next, fr2)
	if fr.key {
		// third frame: another key frame of the same shape with its own field values (a
		// resolution change): nothing derived from the first key frame may be reused
		fr3 := verifVP9HeaderOf(&shape)
		verifC12Frame("C12.f3", p, mtu, (next+1)&0x7FFF, fr3)
		verifCover("C12.second-keyframe")
	}
	if next == 0 {
		verifCover("C12.id-wrap")
	}
	if fr.key {
		verifCover("C12.key")
	}
	verifCover("C12.payloader.end")
}

// (b) independent descriptor encoder (draft-ietf-payload-vp9 section 4.2)
func VerifC12Descriptor() {
	i, p, l, f, v := verifCase("I", 0, 1) == 1, verifCase("P", 0, 1) == 1, verifCase("L", 0, 1) == 1, verifCase("F", 0, 1) == 1, verifCase("V", 0, 1) == 1
	b0 := verifU8("b0") & 0x0D // B, E, Z arbitrary
	if i {
		b0 |= 0x80
	}
	if p {
		b0 |= 0x40
	}
	if l {
		b0 |= 0x20
	}
	if f {
		b0 |= 0x10
	}
	if v {
		b0 |= 0x02
	}
	desc := []byte{b0}
	var picID uint16
	if i {
		picID = verifU16("picid")
		if verifCase("M", 0, 1) == 1 {
			picID &= 0x7FFF
			desc = append(desc, 0x80|uint8(picID>>8), uint8(picID))
		} else {
			picID &= 0x7F
			desc = append(desc, uint8(picID))
		}
	}
	var lb, tl0 uint8
	if l {
		lb = verifU8("layer")
		verifAssume(lb>>1&7 <= 4) // SID below the supported number of spatial layers
		desc = append(desc, lb)
		if !f {
			tl0 = verifU8("tl0picidx")
			desc = append(desc, tl0)
		}
	}
	var refs []uint8
	if f && p {
		n := verifCase("refs", 1, 3)
		for k := 0; k < n; k++ {
			r := verifU8("pdiff") & 0x7F
			refs = append(refs, r)
			more := uint8(0)
			if k < n-1 {
				more = 1
			}
			desc = append(desc, r<<1|more)
		}
	}
	var ns, ng int
	var y, g bool
	var ws, hs []uint16
	var pgT []uint8
	var pgU []uint8
	var pgR [][]uint8
	if v {
		ns = verifPick("N_S", []int{0, 1, 5, 7, 2, 3, 4, 6}[:verifBound("C12.nskinds")])
		y, g = verifCase("Y", 0, 1) == 1, verifCase("G", 0, 1) == 1
		sb := uint8(ns)<<5 | verifU8("ss.res")&7
		if y {
			sb |= 0x10
		}
		if g {
			sb |= 0x08
		}
		desc = append(desc, sb)
		if y {
			for k := 0; k <= ns; k++ {
				wv, hv := verifU16("ss.w"), verifU16("ss.h")
				ws, hs = append(ws, wv), append(hs, hv)
				desc = append(desc, uint8(wv>>8), uint8(wv), uint8(hv>>8), uint8(hv))
			}
		}
		if g {
			ng = verifCase("N_G", 0, 2)
			desc = append(desc, uint8(ng))
			for k := 0; k < ng; k++ {
				r := verifCase("R", 0, verifBound("C12.maxr"))
				pb := verifU8("pg.byte")&0xF3 | uint8(r)<<2
				desc = append(desc, pb)
				pgT, pgU = append(pgT, pb>>5), append(pgU, pb>>4&1)
				var rr []uint8
				for q := 0; q < r; q++ {
					x := verifU8("pg.pdiff")
					rr = append(rr, x)
					desc = append(desc, x)
				}
				pgR = append(pgR, rr)
			}
		}
	}
	body := verifBytes("body", verifCase("bodylen", 0, 2))
	pkt := append(append([]byte{}, desc...), body...)
	var d VP9Packet
	out, err := d.Unmarshal(pkt)
	verifAssert("C12.d.accept", err == nil)
	verifAssert("C12.d.payload", verifEqBytes(out, body) && verifEqBytes(d.Payload, body))
	verifAssert("C12.d.flags", d.I == i && d.P == p && d.L == l && d.F == f && d.V == v)
	verifAssert("C12.d.bez", d.B == (b0&8 != 0) && d.E == (b0&4 != 0) && d.Z == (b0&1 != 0))
	verifAssert("C12.d.pictureid", d.PictureID == picID)
	if l {
		verifAssert("C12.d.layer", d.TID == lb>>5 && d.U == (lb&0x10 != 0) && d.SID == lb>>1&7 && d.D == (lb&1 != 0))
		verifAssert("C12.d.tl0picidx", d.TL0PICIDX == tl0)
	}
	verifAssert("C12.d.refs", verifEqBytes(d.PDiff, refs))
	if v {
		verifAssert("C12.d.ss", int(d.NS) == ns && d.Y == y && d.G == g && int(d.NG) == ng)
		verifAssert("C12.d.ss-res-count", len(d.Width) == len(ws) && len(d.Height) == len(hs))
		for k := range ws {
			verifAssert("C12.d.ss-res", d.Width[k] == ws[k] && d.Height[k] == hs[k])
		}
		verifAssert("C12.d.pg-count", len(d.PGTID) == ng && len(d.PGU) == ng && len(d.PGPDiff) == ng)
		for k := 0; k < ng; k++ {
			verifAssert("C12.d.pg", d.PGTID[k] == pgT[k] && d.PGU[k] == (pgU[k] == 1) && verifEqBytes(d.PGPDiff[k], pgR[k]))
		}
		verifCover("C12.d.ss")
	}
	verifAssert("C12.d.head", d.IsPartitionHead(pkt) == (b0&8 != 0))
	// every proper prefix of the descriptor is rejected
	for cut := 0; cut < len(desc); cut++ {
		var e VP9Packet
		_, err := e.Unmarshal(desc[:cut])
		verifAssert("C12.d.truncated", err != nil)
	}
	_, err = (&VP9Packet{}).Unmarshal(nil)
	verifAssert("C12.d.nil", err != nil)
	if len(refs) == 3 {
		verifCover("C12.d.three-refs")
	}
	verifCover("C12.descriptor.end")
}

// frames longer than 64 KiB: fragment offsets do not fit 16 bits
func VerifC12LongFrame() {
	n := verifPick("len", []int{65540, 80010})
	mtu := uint16(verifPick("mtu", []int{65535, 40000, 30011}))
	flex := verifCase("flexible", 0, 1) == 1
	p := &VP9Payloader{FlexibleMode: flex, InitialPictureIDFn: func() uint16 { return 7 }}
	data := verifLongFrame(n, false)
	data[0] = 0x84 | verifU8("flags")&3 // profile 0 inter frame
	verifC12Frame("C12.long", p, mtu, 7, verifVP9Frame{data: data})
	verifCover("C12.long.end")
}

// picture groups near the top of the 8-bit N_G field: 85, 86 and 255 pictures
// with 0..3 reference indices each (mostly fixed bytes, symbolic ends)
func VerifC12LargePictureGroup() {
	ng := verifPick("N_G", []int{85, 86, 255})
	desc := []byte{0x02 | verifU8("b0")&0x0D, 0x08, uint8(ng)} // V=1; N_S=0, Y=0, G=1; N_G
	var want [][]uint8
	for k := 0; k < ng; k++ {
		r := (k + 3) % 4
		if r > 3 {
			r = 3
		}
		tu := uint8(k*37) & 0xF0
		desc = append(desc, tu&0xF3|uint8(r)<<2)
		var refs []uint8
		for q := 0; q < r; q++ {
			x := uint8(k*7 + q*13 + 1)
			if k == 0 || k == ng-1 {
				x = verifU8("pdiff")
			}
			refs = append(refs, x)
			desc = append(desc, x)
		}
		want = append(want, refs)
	}
	body := verifBytes("body", verifCase("bodylen", 0, 1))
	var d VP9Packet
	out, err := d.Unmarshal(append(append([]byte{}, desc...), body...))
	verifAssert("C12.pg.accept", err == nil)
	verifAssert("C12.pg.payload", verifEqBytes(out, body))
	verifAssert("C12.pg.count", int(d.NG) == ng && len(d.PGTID) == ng && len(d.PGU) == ng && len(d.PGPDiff) == ng)
	for k := 0; k < ng && k < len(d.PGPDiff); k++ {
		verifAssert("C12.pg.refs", verifEqBytes(d.PGPDiff[k], want[k]))
	}
	verifCover("C12.pg.end")
}
