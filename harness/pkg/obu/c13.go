package obu

// C13: the deprecated pkg/obu wrappers behave as the codecs/av1/obu functions.

func VerifC13PkgObuWrappers() {
	v := verifU64("v")
	verifAssume(v>>32 == 0)
	packed := uint64(EncodeLEB128(uint(v)))
	// unpack big-endian and read back
	var enc []byte
	started := false
	for i := 7; i >= 0; i-- {
		b := uint8(packed >> (8 * uint(i)))
		if b != 0 || started || i == 0 {
			started = true
			enc = append(enc, b)
		}
	}
	got, n, err := ReadLeb128(enc)
	verifAssert("C13.pkgobu.rt", err == nil && uint64(got) == v && int(n) == len(enc))
	_, _, err = ReadLeb128(nil)
	verifAssert("C13.pkgobu.empty", err == ErrFailedToReadLEB128)
	verifCover("C13.pkgobu.end")
}
